"""C05 -- orientation and angular jitter follow the documented rotation convention.

Every oriented model's exported 2-D kernel (IR of the real generated source)
runs under the real Python driver on z3 proxies, exactly as in C01, with the
view angles, jitter meshes (0..3 angles, lengths <= 2), their weights, a size
distribution and (qx,qy) symbolic.  The reference (vlib.kharness.Reference,
rotation_terms) is built from the documentation's matrices
R = Rz(phi) Ry(theta) Rz(psi) Rx(dphi) Ry(dtheta) Rz(dpsi), q_particle = R^-1
(qx,qy,0), weight = prod(w)*|cos(dtheta)|.  The arguments that reach the
(uninterpreted) Iqac/Iqabc are aligned with the reference by solver lemmas
under sin^2+cos^2=1, then the accumulators are compared.

Second part: the real direct_model.get_mesh on proxies: in 1-D data the
orientation parameters carry ([0],[1]) whatever their dispersity settings, and
jitter distributions are centred on zero with absolute width (C02 covers the
weights themselves).
"""
import itertools

import numpy as np
import z3

from vlib import symx, npshim, kharness
from vlib.harness import Unit, pmap
from vlib.symx import Sym, term

from sasmodels import core, direct_model, weights as W
from . import c01


def oriented_models():
    out = []
    for n in core.list_models():
        i = core.load_model_info(n)
        if not callable(i.Iq) and i.parameters.orientation_parameters:
            out.append(n)
    return out


def configs(chk):
    out = []
    for name in oriented_models():
        info = core.load_model_info(name)
        angles = [p.id for p in info.parameters.orientation_parameters]
        size = [p.id for p in info.parameters.call_parameters[2:2 + info.parameters.npars]
                if p.polydisperse and p.type == "volume"]
        out.append((name, "2d", {}, 0, "Iq", "C05"))
        for a in angles:
            out.append((name, "2d", {a: 2}, 0, "Iq", "C05"))
        if chk.quick:
            combos = [tuple(angles[:2])]
            if len(angles) == 3 and name in ("parallelepiped", "triaxial_ellipsoid"):
                combos.append(tuple(angles))      # all three jitter angles at once
        else:
            combos = [c for r in (2, 3) for c in itertools.combinations(angles, r)]
        for c in combos:
            if len(c) == 3:
                out.append((name, "2d", {a: 2 for a in c}, 0, "Iq", "C05", False, True))
                continue
            out.append((name, "2d", {a: 2 for a in c}, 0, "Iq", "C05"))
        if size:
            out.append((name, "2d", {angles[0]: 2, size[0]: 2}, 0, "Iq", "C05"))
            if not chk.quick:
                out.append((name, "2d", {angles[-1]: 2, size[-1]: 2}, 1 if info.radius_effective_modes else 0, "Fq", "C05"))
    return out


# ---------------------------------------------------------------------------
# get_mesh: orientation parameters in 1-D, jitter centred on zero

def unit_mesh(name):
    label = "mesh/%s" % name
    u = Unit(label)
    info = core.load_model_info(name)
    direct_model.float = npshim.ident_float
    angles = [p for p in info.parameters.call_parameters if p.type == "orientation"]
    u.functions("sasmodels.direct_model.get_mesh", "sasmodels.direct_model._pop_par_weights")
    calls = []

    def fake_get_weights(disperser, n, width, nsigmas, value, limits, relative):
        calls.append((disperser, n, width, nsigmas, value, tuple(limits), relative))
        k = len(calls)
        return (symx.oarray([symx.real("gw%d_x%d" % (k, i)) for i in range(2)]),
                symx.oarray([symx.real("gw%d_w%d" % (k, i)) for i in range(2)]))

    real_gw = W.get_weights
    pars = {}
    sy = {}
    for p in angles:
        sy[p.id] = (symx.real(p.id), symx.real(p.id + "_pd"), symx.real(p.id + "_pd_nsigma"))
        pars[p.id] = sy[p.id][0]
        pars[p.id + "_pd"] = sy[p.id][1]
        pars[p.id + "_pd_n"] = 2
        pars[p.id + "_pd_nsigma"] = sy[p.id][2]
    A = [s[1].t > 0 for s in sy.values()]
    for dim in ("1d", "2d"):
        del calls[:]
        direct_model.weights.get_weights = fake_get_weights
        try:
            ex = symx.Explorer(max_paths=50)
            paths = ex.explore(lambda: direct_model.get_mesh(info, dict(pars), dim=dim), A)
        finally:
            direct_model.weights.get_weights = real_gw
        u.absorb(ex, paths)
        for p_ in paths:
            H = p_.constraints()
            if p_.exc is not None or p_.cut:
                u.prove("get_mesh-raises-nothing", z3.BoolVal(False), H, _mesh_cex(name, dim, "exception %r" % p_.exc))
                continue
            mesh = p_.result
            for par, (v, d, w) in zip(info.parameters.call_parameters, mesh):
                if par.type != "orientation":
                    continue
                if dim == "1d":
                    ok = len(d) == 1 and len(w) == 1
                    phi = z3.And(term(d[0]) == 0, term(w[0]) == 1, term(v) == sy[par.id][0].t) if ok else z3.BoolVal(False)
                    u.prove("1d-orientation-inactive", phi, H, _mesh_cex(name, dim, "orientation parameter %s active in 1-D" % par.id))
                else:
                    u.prove("2d-view-angle-is-value", term(v) == sy[par.id][0].t, H,
                            _mesh_cex(name, dim, "view angle of %s is not the parameter value" % par.id))
            if dim == "2d":
                # the jitter distribution request: absolute width (relative=False); get_weights then
                # centres it on zero (Dispersion.get_weights, proved in C02)
                want = {p.id for p in angles}
                got = [c for c in calls[-len(angles):]] if calls else []
                ok = len(got) == len(angles) and all(c[6] is False for c in got)
                u.prove("jitter-requested-with-absolute-width", z3.BoolVal(ok), H,
                        _mesh_cex(name, dim, "jitter distribution not requested with relative=False: %r" % (got,)))
    return u.r


def unit_degenerate(name):
    """A jitter distribution that degenerates to one point (npts=1, or zero width)
    is the single value 0 with weight 1 -- through the REAL weights.get_weights."""
    label = "mesh-degenerate/%s" % name
    u = Unit(label)
    info = core.load_model_info(name)
    direct_model.float = npshim.ident_float
    W.np = npshim.NpShim()
    u.functions("sasmodels.direct_model.get_mesh", "sasmodels.weights.get_weights (real)",
                "sasmodels.weights.Dispersion.get_weights")
    angles = [p for p in info.parameters.call_parameters if p.type == "orientation"]
    for npts, zero_width in ((1, False), (3, True)):
        pars, sy = {}, {}
        for p in angles:
            sy[p.id] = (symx.real(p.id), symx.real(p.id + "_pd"))
            pars[p.id] = sy[p.id][0]
            pars[p.id + "_pd"] = sy[p.id][1]
            pars[p.id + "_pd_n"] = npts
        A = [(s[1].t == 0) if zero_width else (s[1].t > 0) for s in sy.values()]
        # view angles inside the parameter limits (the centre of the jitter is 0, which they contain)
        ex = symx.Explorer(max_paths=100)
        paths = ex.explore(lambda: direct_model.get_mesh(info, dict(pars), dim="2d"), A)
        u.absorb(ex, paths)
        for p_ in paths:
            H = p_.constraints()
            if p_.exc is not None or p_.cut:
                u.prove("get_mesh-raises-nothing", z3.BoolVal(False), H, _deg_cex(name, npts, zero_width))
                continue
            for par, (v, d, w) in zip(info.parameters.call_parameters, p_.result):
                if par.type != "orientation":
                    continue
                ok = len(d) == 1 and len(w) == 1
                phi = z3.And(term(d[0]) == 0, term(w[0]) == 1, term(v) == sy[par.id][0].t) if ok else z3.BoolVal(False)
                u.prove("one-point-jitter-is-zero", phi, H, _deg_cex(name, npts, zero_width))
    W.np = np
    return u.r


def _deg_cex(name, npts, zero_width):
    def handler(m):
        info = core.load_model_info(name)
        pars = {}
        for p in info.parameters.call_parameters:
            if p.type == "orientation":
                pars[p.id] = 33.0
                pars[p.id + "_pd"] = 0.0 if zero_width else 7.0
                pars[p.id + "_pd_n"] = npts
        direct_model.float = float
        W.np = np
        mesh = direct_model.get_mesh(info, pars, dim="2d")
        bad = any(par.type == "orientation" and (list(d) != [0.0] or list(w) != [1.0] or v != 33.0)
                  for par, (v, d, w) in zip(info.parameters.call_parameters, mesh))
        return {"reproduced": bool(bad), "key": "C05/mesh/degenerate-jitter",
                "what": "%s: get_mesh(2d) with %s_pd_n=%d, width %s: the one-point jitter distribution is not ([0],[1])"
                        % (name, "theta", npts, "0" if zero_width else "7"),
                "inputs": {"model": name, "dim": "2d", "pars": pars}, "block": None}
    return handler


def _mesh_cex(name, dim, what):
    def handler(m):
        info = core.load_model_info(name)
        pars = {}
        for p in info.parameters.call_parameters:
            if p.type == "orientation":
                pars[p.id] = 33.0
                pars[p.id + "_pd"] = 7.0
                pars[p.id + "_pd_n"] = 3
        direct_model.float = float
        mesh = direct_model.get_mesh(info, pars, dim=dim)
        bad = False
        for par, (v, d, w) in zip(info.parameters.call_parameters, mesh):
            if par.type == "orientation":
                if dim == "1d" and (list(d) != [0.0] or list(w) != [1.0]):
                    bad = True
                if dim == "2d" and (v != 33.0 or abs(np.mean(d)) > 1e-9):
                    bad = True
        return {"reproduced": bad, "key": "C05/mesh/%s" % dim, "what": "%s %s: %s" % (name, dim, what),
                "inputs": {"model": name, "dim": dim, "pars": pars}, "block": None}
    return handler


def replay(cex):
    i = cex.get("inputs", {})
    if "mesh" in i:
        return c01.replay(cex)
    # get_mesh clauses: re-run the real get_mesh on the stored parameters
    info = core.load_model_info(i["model"])
    direct_model.float = float
    W.np = np
    mesh = direct_model.get_mesh(info, dict(i["pars"]), dim=i["dim"])
    bad = False
    for par, (v, d, w) in zip(info.parameters.call_parameters, mesh):
        if par.type != "orientation":
            continue
        n = i["pars"].get(par.id + "_pd_n", 0)
        width = i["pars"].get(par.id + "_pd", 0.0)
        one_point = i["dim"] == "1d" or n < 2 or width == 0
        if one_point and (list(d) != [0.0] or list(w) != [1.0]):
            bad = True
        if v != i["pars"].get(par.id, par.default) or (len(d) > 1 and abs(np.mean(d)) > 1e-9):
            bad = True
        print(par.id, "value", v, "jitter", list(d), "weights", list(w))
    return 1 if bad else 0


def _dispatch(item):
    kind, cfg = item
    if kind == "h1":
        return c01.unit_h1(cfg)
    return unit_mesh(cfg) if kind == "mesh" else unit_degenerate(cfg)


def run(chk):
    chk.explanation = (
        "For each of the 21 oriented models the real driver runs on z3 proxies and the IR of the model's real "
        "generated <model>_Iqxy kernel (template orientation/jitter code: qac_rotation/qac_apply/qabc_*, "
        "APPLY_PROJECTION) is executed symbolically with view angles, jitter meshes, weights, a size "
        "distribution and (qx,qy) symbolic. The arguments reaching the uninterpreted Iqac/Iqabc are proved "
        "equal to R^-1(qx,qy,0) for the documented R = Rz(phi)Ry(theta)Rz(psi)Rx(dphi)Ry(dtheta)Rz(dpsi) (qc and "
        "qab^2=qa^2+qb^2 for symmetric shapes) by solver lemmas under sin^2+cos^2=1, and the accumulators equal "
        "sum prod(w)|cos dtheta| I(...). get_mesh is executed on proxies for the 1-D / jitter-centre clauses.")
    chk.bounds = {"jitter mesh": "0..2 (quick) / 0..3 (thorough) jitter angles, 2 points each, optionally with one size "
                                 "parameter of 2 points; nq = 1 detector point", "solver": "60 s per obligation, 30 s per lemma"}
    chk.outside = ["PROJECTION == 2 (sinusoidal; not compiled in)", "CRUFT Iqxy models",
                   "the consequences (rotation of detector and phi together, I(-q)=I(q)) are not separate obligations: "
                   "they follow from the proved convention by trigonometric addition formulas (paper argument)",
                   "unoriented models depend on |q| only: covered by C01's 2-D reference (sqrt(qx^2+qy^2) argument)",
                   "rounding"]
    chk.stubs = c01_stubs()
    chk.assumptions = ["weights >= 0, cutoff >= 0", "circle axiom sin^2+cos^2=1 per angle atom; sqrt axioms",
                       "a one-point jitter distribution is [0] with weight 1 (get_mesh contract, checked by the mesh units)",
                       "Iqac/Iqabc uninterpreted (their evenness in q is not needed for any obligation)"]
    items = [("h1", c) for c in configs(chk)] + [("mesh", n) for n in oriented_models()] \
        + [("deg", n) for n in oriented_models()]
    if getattr(chk, "only", None):
        items = [it for it in items if chk.only in ("%s/%s/%s" % (it[1][0], it[1][1], it[1][2]) if it[0] == "h1"
                                                     else {"mesh": "mesh/", "deg": "mesh-degenerate/"}[it[0]] + it[1])]
    pmap(c01._prebuild, sorted({c[0] for k, c in items if k == "h1"}))
    chk.add(pmap(_dispatch, items))


def c01_stubs():
    return ["ctypes function pointers of DllModel -> IR interpreter (vlib.kharness.SymDll)",
            "Iqac/Iqabc/Iq/form_volume/... -> uninterpreted functions of their actual arguments",
            "sin/cos/sqrt -> uninterpreted with circle/sqrt axioms (exact at 0)",
            "direct_model.float -> identity on proxies; weights.get_weights -> recording stub (mesh units)"]
