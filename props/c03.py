"""C03 -- resolution smearing is a normalised non-negative average with full support.

The real weight-matrix builders (``pinhole_resolution``, ``slit_resolution``,
``_q_perp_weights``) run on fully symbolic grids; the real constructors
(``Pinhole1D``, ``Slit1D``, ``Pinhole2D``, ``Slit2D``, ``Perfect1D``) and
``apply`` run on symbolic data with bounded grid-extension trip counts, the
matrix builder being recorded (assume/guarantee: what the constructor must
establish for the builder -- increasing grid, >= 2 points, bins covering every
window -- are obligations here; what the builder then guarantees is proved in
the *-matrix units).  ``DataMixin._calc_theory`` runs with an uninterpreted
kernel for the scale/background clause.

Every property is written once as a list of ``Rel`` and read twice: as a z3
formula on the symbolic run and as a float test on the replay of the real code.
"""
import json
import random

import numpy as np
import z3

from vlib import symx, ressym as RS
from vlib.harness import pmap
from vlib.symx import Sym, term
from vlib.ressym import (Rel, g_sqrt, g_and, g_or, g_not, g_ite, g_max, g_min, g_sum, g_abs,
                         CUT, MINRES, NLOW, NHIGH, bin_edges_ref)

PID = "C03"
R = RS.R


# --------------------------------------------------------------------------
# shared predicates (generic: proxies or floats)

def in_pinhole_window(x, q, s):
    return g_and(x >= q - NLOW * s, x <= q + NHIGH * s)


def all_windows_hit(G, q, s):
    return g_and(*[g_or(*[in_pinhole_window(x, q[i], s[i]) for x in G]) for i in range(len(q))])


def strictly_increasing(G, label):
    return [Rel("lt", G[j], G[j + 1], "%s: grid point %d < point %d" % (label, j, j + 1))
            for j in range(len(G) - 1)]


def qperp_covered(e, qi, w):
    """bins e cover [|q|, sqrt(q^2+w^2)]."""
    return g_and(e[0] <= g_abs(qi), e[-1] >= g_sqrt(qi * qi + w * w))


# --------------------------------------------------------------------------
# oracles.  Signature: fn(scn, v, o) -> [Rel]; v = inputs, o = outputs; on a
# path / replay where the code raised (or produced NaN) o == {"exc": ...}.

def _ok(o):
    return "exc" not in o


def pm_defined(scn, v, o):
    if _ok(o):
        return []
    return [Rel("true", g_not(all_windows_hit(v["qc"], v["q"], v["s"])),
                label="pinhole_resolution raised / returned NaN (%s) although every window "
                      "[q-2.5s, q+3s] holds a q_calc point" % o["exc"][:60])]


def nonneg(key):
    def fn(scn, v, o):
        if not _ok(o):
            return []
        return [Rel("ge", x, 0.0, "weight %s >= 0" % (idx,)) for idx, x in np.ndenumerate(o[key])]
    return fn


def colsum(scn, v, o):
    if not _ok(o):
        return []
    W = o["W"]
    return [Rel("eq", g_sum(W[:, i]), 1.0, "column %d sums to 1" % i) for i in range(W.shape[1])]


def pm0_identity(scn, v, o):
    if not _ok(o):
        return [Rel("true", False, "zero-width pinhole matrix raised: %s" % o["exc"][:60])]
    W = o["W"]
    return [Rel("eq", W[j, i], 1.0 if i == j else 0.0, "W[%d,%d] is the identity" % (j, i))
            for j in range(W.shape[0]) for i in range(W.shape[1])]


def qp_defined(scn, v, o):
    return [] if _ok(o) else [Rel("true", False, "_q_perp_weights raised: %s" % o["exc"][:60])]


def qp_sum(scn, v, o):
    if not _ok(o):
        return []
    return [Rel("eq", g_sum(o["P"]), 1.0, "length-kernel weights sum to 1 when the bins cover "
                "[|q|, sqrt(q^2+L^2)]", when=qperp_covered(v["e"], v["qi"], v["w"]))]


def _slit_cover(mode, e, qi, L, W):
    """Bins cover the documented window of one data point (hypothesis of the
    normalisation of slit_resolution)."""
    if mode == "L":
        return qperp_covered(e, qi, L)
    if mode == "W":
        return g_and(e[0] <= g_max(qi - W, 0.0), e[-1] >= qi + W)
    raise ValueError(mode)


def sm_defined(scn, v, o):
    return [] if _ok(o) else [Rel("true", False, "slit_resolution raised: %s" % o["exc"][:60])]


def sm_colsum(scn, v, o):
    if not _ok(o):
        return []
    mode = scn.cfg["mode"]
    W = o["W"]
    qc, q = v["qc"], v["q"]
    e = bin_edges_ref(qc)
    out = []
    for i in range(len(q)):
        if mode == "00":
            when = g_or(*[x == q[i] for x in qc])
        elif mode == "LW":
            n = 30
            when = g_and(*[qperp_covered(e, q[i] + k * v["W"][i] / n, v["L"][i])
                           for k in range(-n, n + 1)])
        else:
            when = _slit_cover(mode, e, q[i], v["L"][i], v["W"][i])
        out.append(Rel("eq", g_sum(W[:, i]), 1.0,
                       "column %d sums to 1 when the bins cover the window" % i, when=when))
    return out


def sm_zero(scn, v, o):
    """zero width and length: the weight picks exactly the matching q_calc point."""
    if not _ok(o):
        return []
    W, qc, q = o["W"], v["qc"], v["q"]
    return [Rel("eq", W[j, i], g_ite(qc[j] == q[i], 1.0, 0.0), "W[%d,%d] = [q_calc==q]" % (j, i))
            for j in range(len(qc)) for i in range(len(q))]


# -- constructors ------------------------------------------------------------

def ctor_defined(scn, v, o):
    if _ok(o):
        return []
    return [Rel("true", False, "constructor raised / produced NaN: %s" % o["exc"][:80])]


def ctor_grid(scn, v, o):
    """What the matrix builder needs and what the property promises about q_calc."""
    if not _ok(o):
        return []
    G, qc = list(o["G"]), list(o["qcalc"])
    out = [Rel("true", len(G) >= 2, "at least two q_calc points reach the weight-matrix builder "
               "(bin_edges raises otherwise)")]
    out += strictly_increasing(G, "q_calc")
    out += [Rel("true", len(qc) == len(G), "q_calc has one entry per matrix row")]
    out += [Rel("gt", x, 0.0, "q_calc[%d] > 0" % j) for j, x in enumerate(qc)]
    out += [Rel("eq", qc[j], g_abs(G[j]), "q_calc[%d] = |grid point|" % j)
            for j in range(min(len(G), len(qc)))]
    return out


def ctor_stores(scn, v, o):
    if not _ok(o):
        return []
    W, Wr = o["W"], o["Wret"]
    if W.shape != Wr.shape:
        return [Rel("true", False, "weight_matrix is not the builder's result")]
    return [Rel("eq", W[idx], Wr[idx], "weight_matrix%s is the builder's result" % (idx,))
            for idx in np.ndindex(W.shape)]


def _data_in_grid(G, q):
    return [Rel("true", g_or(*[x == q[i] for x in G]), "data point %d is a q_calc point" % i)
            for i in range(len(q))]


def p1_args(scn, v, o):
    if not _ok(o):
        return []
    q, s, sig = v["q"], o["s"], o["sig"]
    out = [Rel("eq", o["q_arg"][i], q[i], "builder gets q") for i in range(len(q))]
    out += [Rel("eq", sig[i], g_max(s[i], MINRES), "builder gets max(q_width, 1e-8)") for i in range(len(q))]
    return out


def _minimum(xs):
    m = xs[0]
    for x in xs[1:]:
        m = g_min(m, x)
    return m


def p1_floor(v, s):
    """The lowest window limit lies inside the band |q| < 0.02 min(q) that the
    constructor removes from q_calc."""
    q = v["q"]
    cut = CUT * q[0]
    qmin = _minimum([q[i] - NLOW * s[i] for i in range(len(q))])
    return g_and(qmin > -cut, qmin < cut)


def p1_cover(scn, v, o):
    """q_calc spans [q-2.5s, q+3s] of every point up to 2*MINIMUM_RESOLUTION
    (the code extends the grid only beyond that distance)."""
    if not _ok(o):
        return []
    q, s, G = v["q"], o["s"], list(o["G"])
    out = []
    tol = 2 * MINRES
    for i in range(len(q)):
        out.append(Rel("ge", G[-1], q[i] + NHIGH * s[i] - tol, "max(q_calc) >= q[%d]+3s (-2e-8)" % i, scale=0.0))
        out.append(Rel("le", G[0], q[i] - NLOW * s[i] + tol, "min(q_calc) <= q[%d]-2.5s (+2e-8)" % i, scale=0.0))
    return out + _data_in_grid(G, q)


def p1_zero(scn, v, o):
    """zero width: the grid is the data grid, the width passed on is 1e-8."""
    if not _ok(o):
        return []
    q, G = v["q"], list(o["G"])
    if len(G) != len(q):
        return [Rel("true", False, "zero width: q_calc is not q")]
    return [Rel("eq", G[i], q[i], "zero width: q_calc[%d] = q[%d]" % (i, i)) for i in range(len(q))] + \
           [Rel("eq", o["sig"][i], MINRES, "zero width: builder width = 1e-8") for i in range(len(q))]


def p1u_pre(v, o):
    """user grid: the documented use needs >= 2 points above the low-q cutoff
    and a point inside every window."""
    q, s = v["q"], o["s"]
    sig = [g_max(s[i], MINRES) for i in range(len(q))]
    return g_and(len(o["G"]) >= 2, all_windows_hit(list(o["G"]), q, sig))


def s1_args(scn, v, o):
    if not _ok(o):
        return []
    q = v["q"]
    L, W = scn.per_point(v)
    out = [Rel("eq", o["q_arg"][i], q[i], "builder gets q") for i in range(len(q))]
    out += [Rel("eq", o["a_width"][i], L[i], "slit_resolution 'width' (sqrt kernel) = slit length q_length[%d]" % i)
            for i in range(len(q))]
    out += [Rel("eq", o["a_length"][i], W[i], "slit_resolution 'length' (|q+v| kernel) = slit width q_width[%d]" % i)
            for i in range(len(q))]
    return out


def s1_floor(scn, v):
    """Some window reaches below the 0.02*min(q) cutoff of q_calc."""
    q = v["q"]
    _L, W = scn.per_point(v)
    return g_or(*[q[i] - W[i] < CUT * q[0] for i in range(len(q))])


def _s1_limits(scn, v):
    """(q - L, q - W, (q+L)^2+W^2, (q+W)^2+L^2) per data point."""
    q = v["q"]
    L, W = scn.per_point(v)
    n = len(q)
    return ([q[i] - L[i] for i in range(n)], [q[i] - W[i] for i in range(n)],
            [(q[i] + L[i]) * (q[i] + L[i]) + W[i] * W[i] for i in range(n)],
            [(q[i] + W[i]) * (q[i] + W[i]) + L[i] * L[i] for i in range(n)])


def s1_swap_low(scn, v):
    """Region where the lower grid limit computed with the slit roles swapped
    (min(q - q_length) instead of min(q - q_width)) misses a window: it lies
    above min(q - W), or strictly inside (0, 0.02 min q) where the cutoff then
    removes the points that the correct limit (>= cutoff) would have kept."""
    sw, ok, _a, _b = _s1_limits(scn, v)
    qmin_sw, qmin_ok = _minimum(sw), _minimum(ok)
    return g_or(qmin_sw > qmin_ok, s1_swap_cut(scn, v))


def s1_swap_cut(scn, v):
    """Sub-region of s1_swap_low in which the first surviving grid point is an
    interior point of the geometric extension (depends on the uninterpreted
    logarithms): witnesses are looked for outside it first."""
    sw, ok, _a, _b = _s1_limits(scn, v)
    qmin_sw, qmin_ok = _minimum(sw), _minimum(ok)
    cut = CUT * v["q"][0]
    return g_and(qmin_sw > 0.0, qmin_sw < cut, qmin_sw < qmin_ok)


def s1_swap_high(scn, v):
    """Region where the upper grid limit computed with the roles swapped,
    max sqrt((q+L)^2+W^2), is below the needed max sqrt((q+W)^2+L^2).  Written
    with the same sqrt terms as the code, so that it is linear once they are
    abstracted."""
    _sw, _ok, a, b = _s1_limits(scn, v)
    q = v["q"]
    L, W = scn.per_point(v)
    sa = [g_sqrt(x) for x in a]
    sb = [g_sqrt(b[i]) if not _zero(L[i]) else q[i] + W[i] for i in range(len(b))]
    return g_or(*[g_and(*[sa[i] < sb[j] for i in range(len(a))]) for j in range(len(b))])


def s1_cover_low(scn, v, o):
    """min(q_calc) <= q - W for every point (and every data point is a q_calc point)."""
    if not _ok(o):
        return []
    q, G = v["q"], list(o["G"])
    _L, W = scn.per_point(v)
    # not claimed where the first grid point that survives the cutoff is an interior point of the
    # geometric extension: its position depends on the (uninterpreted) logarithms
    decided = g_not(s1_swap_cut(scn, v))
    return [Rel("le", G[0], q[i] - W[i], "min(q_calc) <= q[%d]-W" % i, scale=0.0, when=decided)
            for i in range(len(q))] + _data_in_grid(G, q)


def s1_cover_high(scn, v, o):
    """max(q_calc) >= sqrt((q+W)^2+L^2) for every point."""
    if not _ok(o):
        return []
    q, G = v["q"], list(o["G"])
    L, W = scn.per_point(v)
    out = []
    for i in range(len(q)):
        hi = g_sqrt((q[i] + W[i]) * (q[i] + W[i]) + L[i] * L[i]) if not _zero(L[i]) else q[i] + W[i]
        out.append(Rel("ge", G[-1], hi, "max(q_calc) >= sqrt((q[%d]+W)^2+L^2)" % i, scale=0.0))
    return out


def _zero(x):
    return not isinstance(x, Sym) and float(x) == 0.0


def s1_norm(scn, v, o):
    """Outside the low-q floor the bins of q_calc cover every point's window
    (= hypothesis of the builder's normalisation); numerically: the real
    columns sum to 1."""
    if not _ok(o):
        return []
    q, G = v["q"], list(o["G"])
    if len(G) < 2:
        return []
    # claimed where q_calc spans the windows: outside the low-q floor and outside the
    # region where the swapped slit roles leave the grid too short (known findings)
    guard = g_not(g_or(s1_floor(scn, v), s1_swap_low(scn, v), s1_swap_high(scn, v)))
    if not RS.issym(*G) and not RS.issym(*q):
        W = o["W"]
        return [Rel("eq", float(np.sum(W[:, i])), 1.0, "column %d of the real weight matrix sums to 1" % i,
                    when=guard) for i in range(W.shape[1])]
    L, W = scn.per_point(v)
    e = bin_edges_ref(G)
    out = []
    for i in range(len(q)):
        zl, zw = _zero(L[i]), _zero(W[i])
        if zl and zw:
            continue        # exact match, covered by 'data point is a q_calc point'
        if zw:
            c = qperp_covered(e, q[i], L[i])
        elif zl:
            c = _slit_cover("W", e, q[i], L[i], W[i])
        else:
            # outside the floor q-W > 0: the sub-kernels q + k W/30 lie in [q-W, q+W]
            c = g_and(e[0] <= q[i] - W[i],
                      e[-1] >= g_sqrt((q[i] + W[i]) * (q[i] + W[i]) + L[i] * L[i]))
        out.append(Rel("true", c, "bins of q_calc cover the window of point %d (columns sum to 1)" % i,
                       when=guard))
    return out


def apply_linear(scn, v, o):
    """apply is linear and returns a flat intensity unchanged (given a
    normalised weight matrix, which is what the builder guarantees)."""
    if not _ok(o):
        return []
    A, W = o["apply"], o["W"]
    a, b = A["a"], A["b"]
    out = [Rel("true", len(A["lhs"]) == W.shape[1], "apply returns one value per data point")]
    for i in range(len(A["lhs"])):
        out.append(Rel("eq", A["lhs"][i], a * A["rf"][i] + b * A["rg"][i],
                       "apply(a f + b g)[%d] = a apply(f) + b apply(g)" % i))
        out.append(Rel("eq", A["flat"][i], 1.0, "apply(1)[%d] = 1" % i))
    return out


def p2_shape(scn, v, o):
    if not _ok(o):
        return []
    n = len(v["qx"])
    if o["weights"] is None:
        return [Rel("true", len(o["qx_calc"]) == n, "no resolution: q_calc is the data grid")] + \
               [Rel("eq", o["qx_calc"][i], v["qx"][i], "qx_calc = qx") for i in range(n)] + \
               [Rel("eq", o["qy_calc"][i], v["qy"][i], "qy_calc = qy") for i in range(n)]
    nb = o["nbins"]
    out = [Rel("true", len(o["qx_calc"]) == nb * n and len(o["qy_calc"]) == nb * n,
               "q_calc holds nr*nphi points per data point"),
           Rel("true", len(o["weights"]) == nb, "one weight per cloud point")]
    out += [Rel("ge", float(w), 0.0, "Gaussian ring weight %d >= 0" % k) for k, w in enumerate(o["weights"])]
    out += [Rel("gt", float(np.sum(o["weights"])), 0.0, "ring weights do not all vanish")]
    return out


def p2_apply(scn, v, o):
    """apply = weighted mean: linear, returns a flat intensity unchanged; without
    resolution information it is the identity."""
    if not _ok(o):
        return []
    A = o["apply"]
    n = len(v["qx"])
    a, b = A["a"], A["b"]
    out = [Rel("true", len(A["lhs"]) == n, "apply returns one value per data point")]
    for i in range(n):
        out.append(Rel("eq", A["lhs"][i], a * A["rf"][i] + b * A["rg"][i],
                       "apply(a f + b g)[%d] = a apply(f) + b apply(g)" % i))
        out.append(Rel("eq", A["flat"][i], 1.0, "apply(1)[%d] = 1" % i))
        if o["weights"] is None:
            out.append(Rel("eq", A["rf"][i], A["f"][i], "no resolution: apply is the identity"))
    return out


def perfect_id(scn, v, o):
    if not _ok(o):
        return []
    q, A = v["q"], o["apply"]
    return [Rel("true", len(o["qcalc"]) == len(q), "q_calc is q")] + \
           [Rel("eq", o["qcalc"][i], q[i], "q_calc[%d] = q[%d]" % (i, i)) for i in range(len(q))] + \
           [Rel("eq", A["rf"][i], A["f"][i], "apply is the identity") for i in range(len(q))]


def dm_linear(scn, v, o):
    """scale and background pass through smearing linearly:
    theory(scale, bg) = scale * theory(1, 0) + bg; the kernel is asked for
    exactly resolution.q_calc; a missing background means the model default."""
    if not _ok(o):
        return []
    full, unit, dflt = o["full"], o["unit"], o["default_bg"]
    out = [Rel("true", len(full) == len(unit), "one value per data point")]
    for i in range(len(full)):
        out.append(Rel("eq", full[i], v["scale"] * unit[i] + v["bg"],
                       "theory(scale,bg)[%d] = scale*theory(1,0) + bg" % i))
        out.append(Rel("eq", dflt[i], v["scale"] * unit[i] + 0.001,
                       "missing background -> model default, added after smearing"))
    res, kern = o["res"], o["mix"]._kernel
    qc = res.q_calc if isinstance(res.q_calc, (list, tuple)) else [res.q_calc]
    out.append(Rel("true", len(kern.q_vectors) == len(qc), "kernel gets resolution.q_calc"))
    for a, b in zip(kern.q_vectors, qc):
        out.append(Rel("true", len(a) == len(b), "kernel gets resolution.q_calc"))
        out += [Rel("eq", x, y, "kernel q = resolution.q_calc") for x, y in zip(a, b)]
    return out


def dm_choice(scn, v, o):
    """Which resolution DataMixin builds: 1-D data with a dx column gets the
    pinhole average of ALL its points as soon as one width is positive (zero
    widths are handled inside Pinhole1D), and no smearing only when every
    width is zero; the constructor receives the full q and dx vectors."""
    if not _ok(o):
        return []
    dtype, res = scn.cfg["dtype"], o["res"]
    if dtype == "perfect":
        return [Rel("true", isinstance(res, R.Perfect1D), "data without resolution columns -> Perfect1D")]
    if dtype == "slit":
        return [Rel("true", isinstance(res, R.Slit1D), "dxl/dxw data -> Slit1D")]
    if dtype != "pinhole":
        return []
    q, s = v["q"], v["s"]
    some = g_or(*[x > 0 for x in s])
    out = [Rel("true", isinstance(res, R.Pinhole1D), "some dx > 0 -> Pinhole1D for the whole data set", when=some),
           Rel("true", isinstance(res, R.Perfect1D), "all dx == 0 -> Perfect1D", when=g_not(some))]
    if isinstance(res, R.Pinhole1D):
        out.append(Rel("true", len(res.q) == len(q) and len(res.q_width) == len(q), "Pinhole1D gets every data point"))
        out += [Rel("eq", res.q[i], q[i], "Pinhole1D gets q[%d]" % i) for i in range(min(len(q), len(res.q)))]
        out += [Rel("eq", res.q_width[i], s[i], "Pinhole1D gets dx[%d] (zeros included)" % i)
                for i in range(min(len(q), len(res.q_width)))]
    return out


class _null:
    def __enter__(self):
        return self

    def __exit__(self, *a):
        return False


ORACLES = {
    "pinhole-matrix": [("defined", pm_defined), ("nonneg", nonneg("W")), ("column-sum", colsum)],
    "pinhole-matrix-zero-width": [("zero-width-identity", pm0_identity)],
    "qperp": [("defined", qp_defined), ("nonneg", nonneg("P")), ("sum", qp_sum)],
    "slit-matrix": [("defined", sm_defined), ("nonneg", nonneg("W")), ("column-sum", sm_colsum)],
    "pinhole1d": [("defined", ctor_defined), ("grid", ctor_grid), ("builder-args", p1_args),
                  ("stores-result", ctor_stores), ("coverage", p1_cover), ("apply", apply_linear)],
    "slit1d": [("defined", ctor_defined), ("grid", ctor_grid), ("builder-args", s1_args),
               ("stores-result", ctor_stores), ("coverage-low", s1_cover_low),
               ("coverage-high", s1_cover_high), ("normalised", s1_norm),
               ("apply", apply_linear)],
    "pinhole2d": [("defined", ctor_defined), ("cloud-shape-and-weights", p2_shape), ("apply", p2_apply)],
    "slit2d": [("defined", ctor_defined)],
    "perfect1d": [("defined", ctor_defined), ("identity", perfect_id)],
    "direct-model": [("defined", ctor_defined), ("resolution-choice", dm_choice),
                     ("scale-background-linear", dm_linear)],
}


def oracles_for(scn):
    ors = list(ORACLES[scn.kind])
    if scn.kind == "slit-matrix" and scn.cfg["mode"] == "00":
        ors.append(("zero-width-identity", sm_zero))
    if scn.kind == "pinhole1d" and scn.cfg.get("width") == "zero":
        ors.append(("zero-width-grid", p1_zero))
    if scn.cfg.get("grid") == "user":
        ors = [(n, f) for n, f in ors if not n.startswith("coverage") and n != "normalised"]
    return ors


# --------------------------------------------------------------------------
# hypotheses that are results of other units (assume / guarantee)

def guarantees(scn, v, o, notes):
    """z3 hypotheses: properties of stubbed pieces established elsewhere."""
    hyp = []
    if "Wret" in o and RS.issym(*o["Wret"].ravel()):
        Wr = o["Wret"]
        for i in range(Wr.shape[1]):
            hyp.append(z3.Sum([term(x) for x in Wr[:, i]]) == 1)
        hyp += [term(x) >= 0 for x in Wr.ravel()]
    for qi, w, apps in notes.get("qperp", []):
        # results of the qperp units for the bin edges of this call
        hyp += [term(a) >= 0 for a in apps]
        e = bin_edges_ref(list(v["qc"]))
        cov = symx._lb(qperp_covered(e, qi, w))
        hyp.append(z3.Implies(cov, z3.Sum([term(a) for a in apps]) == 1))
    return hyp


def preconditions(scn, v, o):
    """Extra hypotheses under which the claim is made (user-supplied grids)."""
    if scn.cfg.get("grid") == "user" and _ok(o):
        sym = RS.issym(*v["q"])
        if scn.kind == "pinhole1d":
            return [symx._lb(p1u_pre(v, o))] if sym else [bool(p1u_pre(v, o))]
        if scn.kind == "slit1d":
            return [z3.BoolVal(len(o["G"]) >= 2)] if sym else [len(o["G"]) >= 2]
    return []


# --------------------------------------------------------------------------
# findings: stable keys and characterising constraints

def classify(scn, oname, v, o_sym, vals=None, bad=()):
    """(key, block) for a reproduced counterexample of oracle *oname*; *vals*
    are the concrete replay inputs, *bad* the violated relation labels."""
    kind, cfg = scn.kind, scn.cfg
    key = "%s/%s/%s" % (PID, kind, oname)
    block = None
    only_low = bool(bad) and all(b.startswith("min(q_calc)") for b in bad)
    if kind == "pinhole1d":
        if oname == "grid" and cfg["n"] == 1 and cfg.get("grid") != "user":
            key = "%s/pinhole1d/single-point-zero-width-raises" % PID
            s = o_sym["s"][0] if o_sym and "s" in o_sym else None
            # no extension on either side: 3 s <= 2e-8 (then also 2.5 s <= 2e-8), exact rationals
            block = (term(s) * symx.rat(NHIGH) <= symx.rat(2 * MINRES)) if isinstance(s, Sym) else z3.BoolVal(True)
        if oname == "coverage" and only_low and vals is not None and "s" in vals \
                and p1_floor(vals, vals["s"]):
            key = "%s/pinhole1d/window-below-low-q-floor" % PID
            block = symx._lb(p1_floor(v, v["s"]))
    elif kind == "slit1d":
        mode = cfg["mode"]
        tag = {"00": "zero", "zz": "zero", "L": "length-only", "Lz": "length-only",
               "W": "width-only", "zW": "width-only", "LW": "length-width"}[mode]
        key = "%s/slit1d-%s/%s" % (PID, tag, oname)
        if oname == "grid" and cfg["n"] == 1 and tag == "zero":
            key = "%s/slit1d/single-point-zero-width-raises" % PID
            block = z3.BoolVal(True)
        if oname == "coverage-low" and only_low and vals is not None:
            if s1_floor(scn, vals):
                key = "%s/slit1d-%s/window-below-low-q-floor" % (PID, tag)
                block = symx._lb(s1_floor(scn, v))
            elif s1_swap_low(scn, vals):
                key = "%s/slit1d-%s/coverage-low-roles-swapped" % (PID, tag)
                block = symx._lb(s1_swap_low(scn, v))
        if oname == "coverage-high" and vals is not None and s1_swap_high(scn, vals):
            key = "%s/slit1d-%s/coverage-high-roles-swapped" % (PID, tag)
            block = symx._lb(s1_swap_high(scn, v))
    elif kind == "slit-matrix":
        key = "%s/slit-matrix-%s/%s" % (PID, cfg["mode"], oname)
    elif kind == "slit2d" and oname == "defined":
        key = "%s/slit2d/apply-raises" % PID
        block = z3.BoolVal(True)
    elif kind == "direct-model":
        key = "%s/direct-model-%s/%s" % (PID, cfg["dtype"], oname)
        if cfg["dtype"] == "oriented" and oname == "defined":
            block = z3.BoolVal(True)
    return key, block


# --------------------------------------------------------------------------
# the unit

def make(kind, cfg):
    cls = {"pinhole-matrix": RS.PinholeMatrix, "pinhole-matrix-zero-width": RS.PinholeMatrixZero,
           "qperp": RS.QPerp, "slit-matrix": RS.SlitMatrix, "pinhole1d": RS.Pinhole1D,
           "slit1d": RS.Slit1D, "pinhole2d": RS.Pinhole2D, "slit2d": RS.Slit2D,
           "perfect1d": RS.Perfect, "direct-model": RS.Direct}[kind]
    return cls(**cfg)


def replay_numeric(scn, oname, vals, spec=None):
    """Real code on floats; which relations of oracle *oname* are violated."""
    spec = spec or _SELF
    o = scn.run_real(vals)
    fn = dict(spec.oracles_for(scn))[oname]
    pre = spec.preconditions(scn, vals, o)
    if not all(pre):
        return [], o
    if "exc" in o and oname in ("defined", "grid"):
        return ["real code raised / returned NaN: " + o["exc"]], o
    with RS.real_code():
        rels = fn(scn, vals, o)
        bad = RS.any_violated(rels)
    return bad, o


def handler(scn, oname, o_sym, spec=None):
    spec = spec or _SELF

    def on_cex(m):
        env = RS.env_of(m, scn.symlist())
        vals = scn.concrete(env)
        bad, o = replay_numeric(scn, oname, vals, spec)
        key, block = spec.classify(scn, oname, scn.syms, o_sym, vals, bad)
        inputs = {"kind": scn.kind, "cfg": scn.cfg, "oracle": oname,
                  "values": {k: (np.asarray(x).tolist() if x is not None else None) for k, x in vals.items()}}
        return {"reproduced": bool(bad), "key": key, "block": block, "inputs": inputs,
                "what": "%s %s: real code violates '%s': %s%s" % (
                    scn.name, json.dumps(inputs["values"]), oname, "; ".join(bad[:3]),
                    (" [" + o["exc"] + "]") if "exc" in o else "")}
    return on_cex


def margin(scn):
    """Margin for robust witnesses: 1e-6 of the first data / grid value."""
    for k in ("q", "qc"):
        if k in scn.syms:
            return scn.syms[k][0].t * symx.rat(1e-6)
    return symx.rat(1e-6)


def _collect_blocks(h, met):
    def wrapped(m):
        info = h(m)
        if info.get("reproduced") and info.get("block") is not None:
            met.append(info["block"])
        return info
    return wrapped


def outputs_of(p):
    if p.exc is not None:
        return {"exc": "%s: %s" % (type(p.exc).__name__, p.exc)}
    return p.result


def run_unit(job, spec):
    """Explore one scenario and discharge the obligations of *spec* (the
    property module: PID, oracles_for, classify, guarantees, preconditions)."""
    kind, cfg = job[:2]
    mandatory = "extended" not in job[2:]      # extended units may stay undecided (thorough tier only)
    scn = make(kind, cfg)
    u = RS.RUnit(scn.name + ("" if mandatory else " [extended]"), timeout_ms=60000)
    u.functions(*scn.functions)
    RS.install()
    ex = symx.Explorer(timeout_ms=20000, max_paths=6000, max_forks=600)
    paths = ex.explore(lambda: scn.call(scn.syms, True), scn.assume)
    u.absorb(ex, paths)
    u.reachable(scn.name, scn.assume)
    if ex.unknown_forks:
        u.note("%d fork feasibility checks returned unknown (both sides explored)" % ex.unknown_forks)
    v = scn.syms
    done = 0
    for pi, p in enumerate(paths):
        if p.cut:
            continue
        o = outputs_of(p)
        H = p.constraints()
        dom = p.notes.get("dom", [])
        pp = RS.PathProver(u, H, always=len(p.assume), pc=p.pc, delta=margin(scn))
        # leaf side conditions: sqrt/log arguments in their domain
        if dom and spec.PID == "C03":
            pp.prove("leaf-domain", z3.And(*[c for _l, c in dom]), handler(scn, "defined", o, spec))
        pp.add_hyps([c for _l, c in dom] + spec.guarantees(scn, v, o, p.notes) + spec.preconditions(scn, v, o))
        for oname, fn in spec.oracles_for(scn):
            rels = fn(scn, v, dict(o, notes=p.notes) if "exc" not in o else o)
            if not rels:
                continue
            h = handler(scn, oname, o, spec)
            blockers = None
            first = getattr(fn, "first_exclude", None)
            if first is not None:
                # witnesses are looked for first outside a region where the symbolic grid depends on
                # uninterpreted values (a witness from there may not replay); the regions of the known
                # findings met in that pass are then excluded from the full obligation
                met = []
                h1 = _collect_blocks(h, met)
                pp.prove(oname, rels, h1, blockers=[z3.Not(symx._lb(first(scn, v)))], mandatory=mandatory)
                blockers = [z3.Not(b) for b in met]
            pp.prove(oname, rels, h, sample=(pi == 0 and oname != "defined"),
                     slice=getattr(fn, "slice", False), mandatory=mandatory, blockers=blockers)
            if oname == "grid" or oname.startswith("lemma:"):
                # grid: whatever is wrong with it is reported once, here;
                # lemma: an intermediate identity, proved first, then used
                pp.add_hyps([r.z3() for r in rels])
        done += 1
        if done <= 2:
            u.sample({"scenario": scn.name, "path": pi, "raised": o.get("exc"),
                      "path_condition": [str(c)[:100] for c in p.pc][:6]})
    validate(u, scn, paths)
    return u.r


import sys as _sys      # noqa: E402
_SELF = _sys.modules[__name__]


def unit(job):
    return run_unit(job, _SELF)


# --------------------------------------------------------------------------
# translator validation: symbolic result terms, evaluated in floats at random
# concrete inputs, against the real code run on the same floats

def sample_inputs(scn, rnd):
    vals = {}
    for k, x in scn.syms.items():
        if isinstance(x, np.ndarray) and x.dtype == object:
            n = len(x)
            if k in ("q", "qc", "e"):
                lo = rnd.uniform(0.01, 0.1) if k != "e" else rnd.uniform(-0.02, 0.05)
                steps = [rnd.uniform(0.01, 0.1) for _ in range(n)]
                vals[k] = np.cumsum([lo] + steps[:-1])
            else:
                vals[k] = np.array([rnd.choice([rnd.uniform(0.002, 0.03), rnd.uniform(0.02, 0.3)]) for _ in range(n)])
        elif isinstance(x, Sym):
            vals[k] = rnd.uniform(-0.1, 0.2) if k == "qi" else rnd.uniform(0.005, 0.2)
        else:
            vals[k] = x
    return vals


def validate(u, scn, paths, tries=3):
    rnd = random.Random(1234)
    good = 0
    for _ in range(tries * 4):
        if good >= tries:
            break
        vals = sample_inputs(scn, rnd)
        env = {}
        for k, x in scn.syms.items():
            if isinstance(x, np.ndarray) and x.dtype == object:
                for s, f in zip(x, vals[k]):
                    env[str(s.t)] = float(f)
            elif isinstance(x, Sym):
                env[str(x.t)] = float(vals[k])
        try:
            hit = RS.path_of(paths, env)
        except KeyError:
            return
        if len(hit) != 1:
            if len(hit) > 1:
                u.error("validation: %d paths claim the same concrete input" % len(hit))
            continue
        p = hit[0]
        if p.cut:
            continue
        o_real = scn.run_real(vals)
        if p.exc is not None or "exc" in o_real:
            if (p.exc is not None) != ("exc" in o_real) and not _stubbed_raise(scn, p, o_real):
                u.error("validation: symbolic path %s but real code %s at %s" % (
                    "raised" if p.exc is not None else "returned", o_real.get("exc", "returned"), vals))
            else:
                u.r["validated"] += 1
            good += 1
            continue
        for key in ("W", "P", "G", "qcalc", "qx_calc", "qy_calc"):
            if key not in p.result:
                continue
            a = p.result[key]
            if key == "W" and "Wret" in p.result:
                continue      # stubbed builder: fresh symbols
            b = np.asarray(o_real[key], dtype=float)
            a = np.asarray(a, dtype=object)
            if a.shape != b.shape:
                u.error("validation: %s shape %s vs real %s" % (key, a.shape, b.shape))
                continue
            try:
                for idx in np.ndindex(a.shape):
                    u.check_close("%s %s%s" % (scn.name, key, idx), float(RS.evalf(a[idx], env)),
                                  float(b[idx]), rtol=1e-7, atol=1e-12)
            except KeyError:
                pass
        good += 1


def _stubbed_raise(scn, p, o_real):
    """With the builder stubbed the symbolic run cannot raise inside it; the
    matching obligation ('grid') reports that case instead."""
    return p.exc is None and "Wret" in (p.result or {})


# --------------------------------------------------------------------------

def configs(chk):
    quick = chk.quick
    jobs = []
    for nq in (1, 2):
        for nc in ((2, 3, 4) if quick else (2, 3, 4, 5)):
            jobs.append(("pinhole-matrix", {"nc": nc, "nq": nq}))
    for n in ((2, 3) if quick else (2, 3, 4)):
        jobs.append(("pinhole-matrix-zero-width", {"n": n}))
    for ne in ((2, 3, 4) if quick else (2, 3, 4, 5, 6)):
        jobs.append(("qperp", {"ne": ne}) + (("extended",) if ne > 5 else ()))
    for mode in ("00", "L", "W", "LW"):
        # columns are independent in the code: paths multiply with nq
        for nc, nq in [(2, 1), (3, 1), (2, 2)]:
            jobs.append(("slit-matrix", {"mode": mode, "nc": nc, "nq": nq}))
        if not quick:
            for nc, nq in [(4, 1), (3, 2)]:
                # the polynomial queries of the largest length-kernel grids may time out: extended
                jobs.append(("slit-matrix", {"mode": mode, "nc": nc, "nq": nq}) + (("extended",) if mode == "L" else ()))
    nmax = 2 if quick else 3
    for n in range(1, nmax + 1):
        jobs.append(("pinhole1d", {"n": n}))
        jobs.append(("pinhole1d", {"n": n, "width": "zero"}))
        for nc in ((2, 3) if quick else (2, 3, 4, 5)):
            jobs.append(("pinhole1d", {"n": n, "grid": "user", "nc": nc}))
    for mode in ("00", "zz", "L", "Lz", "W", "zW", "LW"):
        for shape in ("scalar", "vector"):
            if mode == "00" and shape == "vector":
                continue
            for n in range(1, nmax + 1):
                if quick and mode == "LW" and shape == "vector" and n > 1:
                    continue    # per-point (L, W) on two points: minutes of nlsat model search; thorough tier
                if "L" in mode and shape == "vector" and n > 2:
                    continue    # per-point lengths on three points: the grid limits fork too often (> 20 min)
                jobs.append(("slit1d", {"mode": mode, "shape": shape, "n": n}))
                if shape == "scalar" or not quick:
                    for nc in ((2, 3) if quick else (2, 3, 4, 5)):
                        jobs.append(("slit1d", {"mode": mode, "shape": shape, "n": n, "grid": "user", "nc": nc}))
    for n in (1, 2):
        for acc in (("low", "med") if quick else ("low", "med", "high", "xhigh")):
            jobs.append(("pinhole2d", {"n": n, "accuracy": acc}))
    jobs.append(("pinhole2d", {"n": 2, "dq": "none"}))
    jobs.append(("slit2d", {"n": 2}))
    jobs.append(("perfect1d", {"n": 3}))
    for dtype in ("perfect", "pinhole", "slit", "oriented", "Iqxy"):
        # pinhole needs two points: zero and positive dx mixed in one data set
        for n in ((1, 2) if dtype != "slit" or not quick else (1,)):
            jobs.append(("direct-model", {"dtype": dtype, "n": n}))
    return jobs


def run(chk):
    chk.explanation = (
        "Bounded symbolic execution of the real sasmodels.resolution / resolution2d / direct_model code on z3 "
        "proxy values (numpy object arrays).  Weight-matrix builders (pinhole_resolution, slit_resolution, "
        "_q_perp_weights) run on fully symbolic q_calc/q/width arrays; constructors (Pinhole1D, Slit1D, Pinhole2D, "
        "Slit2D, Perfect1D) and apply run on symbolic data with the builder recorded and grid-extension trip counts "
        "concretised over a bounded range; DataMixin._interpret_data/_calc_theory run with an uninterpreted kernel. "
        "Each path gives weight / grid terms; non-negativity, unit column sums, q_calc > 0 and spanning every "
        "point's window, zero-width identity, linearity of apply, scale/background pass-through and absence of "
        "exceptions are z3 obligations (unsat of the negation); counterexamples are replayed on the real code with floats.")
    chk.bounds = {"data points": "1..%d" % (2 if chk.quick else 3) + " (per-point slit lengths: 1..2)",
                  "q_calc points (matrix builders / user grids)": "2..%d" % (4 if chk.quick else 5),
                  "bin edges (_q_perp_weights)": "2..%d" % (4 if chk.quick else 6),
                  "grid-extension trip count per side": "<= %d (1-point data: the code's fixed 15)" % RS.MAXEXT,
                  "2-D accuracy": "low, med" + ("" if chk.quick else ", high, xhigh"),
                  "solver timeout": "60 s per obligation, 20 s per fork"}
    chk.outside = ["grids beyond the bounds (matrix code is column-wise independent and uniform in the row count)",
                   "geometric / linear extension by more than %d points per side (paths cut and counted)" % RS.MAXEXT,
                   "floating-point rounding (doubles are reals; 10**log10(x) = x exactly)",
                   "slit_resolution n_length other than 30 (the default Slit1D uses)",
                   "user-supplied q_calc: coverage and normalisation (the user's responsibility; bins of a user grid "
                   "that do not cover the window give column sums < 1 for the slit builder)",
                   "Pinhole2D: positivity of |q_calc| when 3*dq >= |q| (cloud reaching the origin), spanning of the "
                   "3-sigma ellipse, exact zero-width identity (the code substitutes 1e-10), data with qx = 0",
                   "Slit2D beyond construction (apply raises on the pinned numpy: known finding)"]
    chk.stubs = list(RS.STUBS) + [
        "constructors: resolution.pinhole_resolution / slit_resolution recorded and replaced by a fresh "
        "symbolic matrix assumed non-negative with unit column sums (their guarantees, proved in the *-matrix units)",
        "slit_resolution mode LW: _q_perp_weights -> one uninterpreted function per bin, assumed >= 0 and summing "
        "to 1 when the bins cover [|q|, sqrt(q^2+L^2)] (proved in the qperp units)",
        "direct_model.call_kernel -> documented kernel.Iq contract scale*P(q)+background with P uninterpreted; "
        "model -> object recording the q vectors passed to make_kernel; direct_model.np -> same shim as resolution.np",
        "Pinhole2D.q_calc_weights (concrete doubles) lifted to exact rationals before apply (no rounding of their sum)"]
    chk.assumptions = ["q strictly increasing and > 0; widths / lengths >= 0 (> 0 where the mode says non-zero)",
                       "matrix builders: q_calc strictly increasing (documented), > 0 for the slit builder (documented)",
                       "zero-width pinhole identity: data points further apart than 3e-8 (= nsigma * MINIMUM_RESOLUTION)",
                       "pinhole coverage is claimed up to 2*MINIMUM_RESOLUTION = 2e-8 (the code's extension threshold)",
                       "normalisation of slit columns at constructor level is claimed outside the documented low-q floor "
                       "(every q - W >= 0.02*min(q)); inside it is the known finding window-below-low-q-floor",
                       "Slit1D low-side coverage is not claimed when the lower limit the code extends the grid to "
                       "(min(q - q_length) on this tree, because of the role swap; min(q - q_width) once repaired, where the "
                       "case is part of the low-q-floor finding) lies strictly inside (0, 0.02*min(q)) below every window: "
                       "which extension point survives the cutoff depends on logarithm values that are uninterpreted",
                       "user-supplied q_calc: strictly increasing, > 0, at least two points above the 0.02*min(q) cutoff and "
                       "one inside every pinhole window",
                       "2-D: qx != 0",
                       "doubles modelled as reals"]
    jobs = configs(chk)
    if getattr(chk, "only", None):
        jobs = [j for j in jobs if chk.only in make(*j[:2]).name]
    chk.add(pmap(unit, jobs))


def replay(cex):
    i = cex["inputs"]
    scn = make(i["kind"], i["cfg"])
    vals = {k: (np.asarray(x, dtype=float) if isinstance(x, list) else x) for k, x in i["values"].items()}
    bad, o = replay_numeric(scn, i["oracle"], vals)
    print("real code, %s with %s ->" % (scn.name, i["values"]))
    for k in ("exc", "qcalc", "G"):
        if k in o:
            print("  %s = %s" % (k, o[k]))
    if "W" in o and "exc" not in o:
        print("  column sums = %s" % np.sum(o["W"], axis=0))
    print("violated (%s): %s" % (i["oracle"], bad))
    return 1 if bad else 0
