"""C09 -- pure-Python and compiled-C executions of one model definition agree.

A fixed family of generated plugin definitions (parameter tables with 1..8
parameters of every type, a vector parameter with its control parameter,
optional shell_volume / effective-radius modes / validity predicate) is
instantiated twice through the real ``modelinfo.make_model_info``: once with C
functions (-> real ``generate.make_source`` -> clang IR -> llsym, exactly as
C01) and once with Python functions (-> real ``kernelpy.PyModel/PyKernel/_loops``
on z3 proxies).  The leaf functions are opaque in both builds (the same
uninterpreted functions), so what is compared is the generic machinery: the
Python loop against the C template, and both against the documented formula
(vlib.kharness.Reference).

Second part: ill-formed definitions are rejected (real ``parse_parameter``,
``check_angles``, ``check_duplicates``, ``make_source``'s 2-D consistency test).
"""
import itertools
import types

import numpy as np
import z3

from vlib import symx, npshim, kharness
from vlib.harness import Unit, pmap
from vlib.kharness import KModel, Reference, sym_mesh, leaf, valid_ref
from vlib.symx import Sym, term

from sasmodels import core, modelinfo, generate, kernelpy, details as sdetails
from . import c01

inf = float("inf")

# ---------------------------------------------------------------------------
# the family of definitions

DEFS = {
    "one_volume": dict(
        parameters=[["radius", "Ang", 50, [0, inf], "volume", ""]],
        form_volume=True),
    "sld_pair": dict(
        parameters=[["sld", "1e-6/Ang^2", 1, [-inf, inf], "sld", ""],
                    ["sld_solvent", "1e-6/Ang^2", 6, [-inf, inf], "sld", ""],
                    ["radius", "Ang", 50, [0, inf], "volume", ""],
                    ["length", "Ang", 400, [0, inf], "volume", ""]],
        form_volume=True, modes=["equivalent sphere", "radius"], valid="radius >= 0.0 && length >= 0.0"),
    "hollow": dict(
        parameters=[["radius", "Ang", 20, [0, inf], "volume", ""],
                    ["thickness", "Ang", 10, [0, inf], "volume", ""],
                    ["alpha", "", 0.5, [0, 1], "", ""],
                    ["sld", "1e-6/Ang^2", 1, [-inf, inf], "sld", ""]],
        form_volume=True, shell_volume=True, modes=["outer radius"], valid="thickness > 0.0"),
    # the same hollow definition written with the model file's inline C strings
    # (form_volume = "return ...;") instead of functions in c_code
    "hollow_inline": dict(
        parameters=[["radius", "Ang", 20, [0, inf], "volume", ""],
                    ["thickness", "Ang", 10, [0, inf], "volume", ""],
                    ["sld", "1e-6/Ang^2", 1, [-inf, inf], "sld", ""]],
        form_volume=True, shell_volume=True, valid="thickness > 0.0", inline=True),
    "no_volume": dict(
        parameters=[["rg", "Ang", 60, [0, inf], "", ""],
                    ["porod_exp", "", 3, [0, inf], "", ""]]),
    "vector": dict(
        parameters=[["n", "", 2, [1, 3], "volume", ""],
                    ["core", "Ang", 30, [0, inf], "volume", ""],
                    ["thick[n]", "Ang", 10, [0, inf], "volume", ""],
                    ["sld_shell[n]", "1e-6/Ang^2", 2, [-inf, inf], "sld", ""]],
        form_volume=True, control="n"),
    "eight": dict(
        parameters=[["a", "Ang", 10, [0, inf], "volume", ""], ["b", "Ang", 20, [0, inf], "volume", ""],
                    ["c", "Ang", 30, [0, inf], "volume", ""], ["sld1", "1e-6/Ang^2", 1, [-inf, inf], "sld", ""],
                    ["sld2", "1e-6/Ang^2", 2, [-inf, inf], "sld", ""], ["frac", "", 0.3, [0, 1], "", ""],
                    ["d", "Ang", 5, [0, inf], "volume", ""], ["e", "Ang", 7, [0, inf], "volume", ""]],
        form_volume=True, shell_volume=True, modes=["m1", "m2", "m3"], valid="a <= b && b <= c"),
}
QUICK = ["one_volume", "sld_pair", "hollow", "hollow_inline", "no_volume", "vector", "eight"]


def _table(d):
    return modelinfo.make_parameter_table(d["parameters"])


def _c_code(d, table):
    def sig(pars):
        return ", ".join(("double *%s" % p.id) if p.length > 1 else ("double %s" % p.id) for p in pars)
    iq = sig(table.iq_parameters)
    vol = sig(table.form_volume_parameters)
    out = ["double Iq(double q%s) { return q; }" % ((", " + iq) if iq else "")]
    if d.get("form_volume"):
        out.append("double form_volume(%s) { return 1.0; }" % vol)
    if d.get("shell_volume"):
        out.append("double shell_volume(%s) { return 1.0; }" % vol)
    if d.get("modes"):
        out.append("double radius_effective(int mode, %s) { return 1.0; }" % vol)
    return "\n".join(out) + "\n"


def _module(name, d, python):
    m = types.ModuleType("verif_c09_" + name + ("_py" if python else "_c"))
    m.__file__ = "/nonexistent/verif_c09_%s_%s.py" % (name, "py" if python else "c")
    m.name = "verif_c09_%s_%s" % (name, "py" if python else "c")
    m.title = "generated definition " + name
    m.description = m.title
    m.__doc__ = m.title
    m.category = "shape:verif"
    m.parameters = [list(p) for p in d["parameters"]]
    m.valid = d.get("valid", "") if not python else ""
    if d.get("modes"):
        m.radius_effective_modes = list(d["modes"])
    if d.get("control"):
        m.control = d["control"]
    return m


def make_infos(name):
    d = DEFS[name]
    table = _table(d)
    mc = _module(name, d, False)
    if d.get("inline"):
        mc.Iq = "return q;"
        if d.get("form_volume"):
            mc.form_volume = "return 1.0;"
        if d.get("shell_volume"):
            mc.shell_volume = "return 1.0;"
    else:
        mc.c_code = _c_code(d, table)
    info_c = modelinfo.make_model_info(mc)
    mp = _module(name, d, True)
    lay = None

    def flat(args, plist):
        out = []
        for a, p in zip(args, plist):
            a = np.asarray(a, dtype=object)
            if p.length == 1:
                out.append(term(a[()] if a.ndim == 0 else a.ravel()[0]))
            else:
                out.extend(term(x) for x in a.ravel())
        return out

    def env_of(args, plist):
        e = {}
        for a, p in zip(args, plist):
            a = np.asarray(a, dtype=object)
            if p.length == 1:
                e[p.id] = term(a[()] if a.ndim == 0 else a.ravel()[0])
        return e

    def Iq(q, *args):
        pl = table.iq_parameters
        fl = flat(args, pl)
        out = FlaggedArray(len(q))
        for j, qj in enumerate(q):
            out[j] = Sym(leaf("Iq", [term(qj)] + fl))
        # A: the Python Iq returns NaN exactly where the definition's validity predicate is false
        out.invalid = z3.Not(valid_ref(d.get("valid"), env_of(args, pl)))
        return out
    Iq.vectorized = True
    mp.Iq = Iq
    if d.get("form_volume"):
        mp.form_volume = lambda *a: Sym(leaf("form_volume", flat(a, table.form_volume_parameters)))
    if d.get("shell_volume"):
        mp.shell_volume = lambda *a: Sym(leaf("shell_volume", flat(a, table.form_volume_parameters)))
    if d.get("modes"):
        mp.radius_effective = lambda mode, *a: Sym(leaf("radius_effective",
                                                        [term(mode)] + flat(a, table.form_volume_parameters)))
    info_py = modelinfo.make_model_info(mp)
    return info_c, info_py


class FlaggedArray(np.ndarray):
    """Object array of intensities with the symbolic 'is NaN' flag of the Python model."""
    def __new__(cls, n):
        obj = np.empty(n, dtype=object).view(cls)
        obj.invalid = z3.BoolVal(False)
        return obj

    def __array_finalize__(self, obj):
        self.invalid = getattr(obj, "invalid", z3.BoolVal(False))


class _NanTest:
    def __init__(self, flag):
        self.flag = flag

    def any(self):
        return symx.SymBool(self.flag)


class KNp(npshim.NpShim):
    """numpy stand-in for kernelpy: float buffers become object buffers."""
    @staticmethod
    def empty(shape, dtype=None, *a, **kw):
        return np.empty(shape, dtype=object)

    @staticmethod
    def zeros(shape, dtype=None, *a, **kw):
        out = np.empty(shape, dtype=object)
        out[...] = Sym(symx.rat(0))
        return out

    @staticmethod
    def asarray(x, dtype=None, *a, **kw):
        return x if isinstance(x, np.ndarray) else np.asarray(x, dtype=object)

    @staticmethod
    def isnan(x):
        return _NanTest(getattr(x, "invalid", z3.BoolVal(False)))


_CACHE = {}


def definitions(name):
    if name not in _CACHE:
        info_c, info_py = make_infos(name)
        _CACHE[name] = (KModel(info_c), info_py)
    return _CACHE[name]


def _run_py(info_py, mesh, q, cutoff, mode, dim):
    kernelpy.np = KNp()
    kernelpy.cbrt = lambda x: symx.uf("cbrt", x)
    try:
        model = kernelpy.PyModel(info_py)
        qv = [q] if dim == "1d" else [q[0::2], q[1::2]]
        kern = model.make_kernel([symx.oarray(list(v)) for v in qv])
        kern.dtype = np.dtype(object)
        cd, values, is_mag = sdetails.make_kernel_args(kern, mesh)
        F1, F2, R, Vs, ratio = kern.Fq(cd, values, cutoff, is_mag, mode)
        return {"Fq": (None if F1 is None else [term(x) for x in F1], [term(x) for x in F2],
                       term(R), term(Vs), term(ratio)),
                "buffer": [term(x) for x in kern.result],
                "Iq": [term(x) for x in kern.Iq(cd, values, cutoff, is_mag)] if mode == 0 else None}
    finally:
        kernelpy.np = np


def unit(cfg):
    name, dim, lengths, mode = cfg
    label = "%s/%s/%s/mode=%s" % (name, dim, ",".join("%s=%d" % kv for kv in sorted(lengths.items())) or "mono", mode)
    u = Unit(label, timeout_ms=30000)
    km, info_py = definitions(name)
    info = km.info
    mesh, syms = sym_mesh(info, lengths, dim)
    # vector-length control parameter: concrete (its value selects how many entries are used)
    d = DEFS[name]
    nq = 2 if dim == "1d" else 1
    q = symx.oarray([symx.real("q%d" % i) for i in range(nq * (1 if dim == "1d" else 2))])
    cutoff = symx.real("cutoff")
    A = kharness.mesh_constraints(syms) + [cutoff.t >= 0, cutoff.t < 1]

    def both():
        c = c01._run(km, mesh, q, cutoff, mode, dim, "Fq")
        p = _run_py(info_py, mesh, q, cutoff, mode, dim)
        return c, p

    ex = symx.Explorer(timeout_ms=20000, max_paths=4000, abstract=True)
    paths = ex.explore(both, A)
    u.absorb(ex, paths)
    u.reachable(label, A)
    ref = Reference(km, mesh, q, cutoff, mode, dim)
    u.functions("sasmodels.kernelpy.PyModel/PyKernel.__init__/_call_kernel/_loops", "sasmodels.kernelpy.PyInput",
                "sasmodels.modelinfo.make_model_info/make_parameter_table", "sasmodels.kernel.Kernel.Fq/Iq",
                "sasmodels.details.make_kernel_args", "%s (IR of generated source)" % km.names[0 if dim == "1d" else 1])
    nout = 1
    nres = nq * nout + 4
    for pi, p in enumerate(paths):
        if p.cut:
            u.error("path cut: %s" % p.cut)
            continue
        H = p.constraints()
        ctx = dict(name=name, dim=dim, lengths=lengths, mode=mode, syms=syms, q=q, cutoff=cutoff)
        if p.exc is not None:
            u.prove("both-executions-raise-nothing", z3.BoolVal(False), H, _cex(ctx, "exception", repr(p.exc)))
            continue
        rc, rp = p.result
        defs = set(x.get_id() for x in rc["defs"])
        if pi < 2:
            u.sample({"config": label, "path": pi,
                      "path_condition": [str(c)[:100] for c in p.pc if c.get_id() not in defs][:6]})
        want = ref.buffer()
        u.prove("python-accumulators-equal-documented-formula",
                z3.And(*[rp["buffer"][i] == want[i] for i in range(nres)]), H, _cex(ctx, "py-accumulators"),
                abstract=True, sample=(pi == 0))
        u.prove("python-and-C-accumulators-agree",
                z3.And(*[rp["buffer"][i] == rc["buffer"][i] for i in range(nres)]), H, _cex(ctx, "py-vs-c"),
                abstract=True)
        (F1c, F2c, Rc, Vc, rc_), (F1p, F2p, Rp, Vp, rp_) = rc["Fq"], rp["Fq"]
        cs = [F2c[j] == F2p[j] for j in range(len(F2c))] + [Vc == Vp, rc_ == rp_]
        if info.radius_effective_modes:
            cs.append(Rc == Rp)
        u.prove("python-and-C-outputs-agree", z3.And(*cs), H, _cex(ctx, "outputs"), abstract=True)
        c01._prove_side(u, rc["side"], H, lambda dsc: _cex(ctx, "side:" + dsc))
    return u.r


# ---------------------------------------------------------------------------
# replay: the same definition with concrete leaf formulas, real PyKernel vs real DLL

def _concrete_modules(name):
    """Concrete arithmetic leaves valid both in C and numpy."""
    d = DEFS[name]
    table = _table(d)

    def names(pl):
        out = []
        for p in pl:
            out.append(p.id)
        return out
    iqn, voln = names(table.iq_parameters), names(table.form_volume_parameters)

    def expr(ns, lens, c):
        terms = []
        for k, (n, ln) in enumerate(zip(ns, lens)):
            if ln == 1:
                terms.append("%g*%s" % (0.3 + 0.1 * k, n))
            else:
                terms.extend("%g*%s[%d]" % (0.3 + 0.1 * k + 0.01 * j, n, j) for j in range(ln))
        return " + ".join(terms + ["%g" % c])
    iql = [p.length for p in table.iq_parameters]
    voll = [p.length for p in table.form_volume_parameters]
    iq_e = "1.0/(1.0 + q*q*(%s))" % expr(iqn, iql, 1.0)
    vol_e = expr(voln, voll, 2.0)
    shell_e = expr(voln, voll, 1.0)
    reff_e = "mode*(%s)" % expr(voln, voll, 3.0)
    return d, table, iq_e, vol_e, shell_e, reff_e


def real_defect(name, dim, mesh_d, q, cutoff, mode):
    import tempfile, os, textwrap
    from sasmodels import custom, direct_model
    d, table, iq_e, vol_e, shell_e, reff_e = _concrete_modules(name)

    def sig(pars, py):
        if py:
            return ", ".join(p.id for p in pars)
        return ", ".join(("double *%s" % p.id) if p.length > 1 else ("double %s" % p.id) for p in pars)
    tmp = tempfile.mkdtemp(prefix="c09-")
    res = {}
    for kind in ("c", "py"):
        lines = ["import numpy as np", "from numpy import inf", "name = 'replay_%s_%s'" % (name, kind),
                 "title = name", "description = name", "category = 'shape:verif'",
                 "parameters = %r" % ([list(p) for p in d["parameters"]],)]
        lines[-1] = lines[-1].replace("inf", "inf")
        if d.get("modes"):
            lines.append("radius_effective_modes = %r" % (d["modes"],))
        if d.get("control"):
            lines.append("control = %r" % d["control"])
        iqp, volp = table.iq_parameters, table.form_volume_parameters
        if kind == "c":
            if d.get("valid"):
                lines.append("valid = %r" % d["valid"])
            if d.get("inline"):
                lines.append("Iq = %r" % ("return %s;" % iq_e))
                if d.get("form_volume"):
                    lines.append("form_volume = %r" % ("return %s;" % vol_e))
                if d.get("shell_volume"):
                    lines.append("shell_volume = %r" % ("return %s;" % shell_e))
            else:
                c = ["double Iq(double q%s) { return %s; }" % ((", " + sig(iqp, False)) if iqp else "", iq_e)]
                if d.get("form_volume"):
                    c.append("double form_volume(%s) { return %s; }" % (sig(volp, False), vol_e))
                if d.get("shell_volume"):
                    c.append("double shell_volume(%s) { return %s; }" % (sig(volp, False), shell_e))
                if d.get("modes"):
                    c.append("double radius_effective(int mode, %s) { return %s; }" % (sig(volp, False), reff_e))
                lines.append("c_code = '''\n%s\n'''" % "\n".join(c))
        else:
            valid = (d.get("valid") or "").replace("&&", " and ").replace("||", " or ")
            body = "    return np.where(%s, %s, np.nan) + 0*q" % (valid, iq_e) if valid else "    return %s + 0*q" % iq_e
            lines.append("def Iq(q%s):\n%s" % ((", " + sig(iqp, True)) if iqp else "", body))
            lines.append("Iq.vectorized = True")
            if d.get("form_volume"):
                lines.append("def form_volume(%s):\n    return %s" % (sig(volp, True), vol_e))
            if d.get("shell_volume"):
                lines.append("def shell_volume(%s):\n    return %s" % (sig(volp, True), shell_e))
            if d.get("modes"):
                lines.append("def radius_effective(mode, %s):\n    return %s" % (sig(volp, True), reff_e))
        path = os.path.join(tmp, "replay_%s_%s.py" % (name, kind))
        with open(path, "w") as f:
            f.write("\n".join(lines).replace("inf]", "inf]") + "\n")
        info = modelinfo.make_model_info(custom.load_custom_kernel_module(path))
        model = core.build_model(info, dtype="double", platform="dll")
        qv = [np.array(q, float)] if dim == "1d" else [np.array(q[0::2], float), np.array(q[1::2], float)]
        kern = model.make_kernel(qv)
        mesh = [(v, np.array(dd, float), np.array(w, float)) for v, dd, w in mesh_d]
        cd, values, mag = sdetails.make_kernel_args(kern, mesh)
        with np.errstate(all="ignore"):
            F1, F2, R, Vs, ratio = kern.Fq(cd, values, cutoff, mag, mode)
            I = kern.Iq(cd, values, cutoff, mag)
        res[kind] = np.hstack([F2, [R if d.get("modes") else 0.0, Vs, ratio], I])
    a, b = res["c"], res["py"]
    den = np.maximum(np.abs(a), np.abs(b))
    with np.errstate(all="ignore"):
        rel = np.where(den > 0, np.abs(a - b) / den, 0.0)
    rel = np.where(np.isnan(a) != np.isnan(b), np.inf, np.where(np.isnan(rel), 0.0, rel))
    return float(rel.max()), {"c": a.tolist(), "py": b.tolist()}


def _cex(ctx, oracle, extra=""):
    def handler(m):
        km, _ip = definitions(ctx["name"])
        best = None
        for use_model in (True, False):
            mesh = c01._generic_values(km.info, ctx["syms"], m, use_model)
            cut = float(symx.model_float(m, ctx["cutoff"].t))
            qq = [0.013 * (i + 1) for i in range(len(ctx["q"]))]
            mesh_d = [[float(v), [float(x) for x in dd], [float(x) for x in w]] for v, dd, w in mesh]
            try:
                defect, detail = real_defect(ctx["name"], ctx["dim"], mesh_d, qq, cut, ctx["mode"])
            except Exception as e:
                defect, detail = float("inf"), {"exception": repr(e)}
            if best is None or defect > best[0]:
                best = (defect, detail, mesh_d, qq, cut)
            if defect > 1e-9:
                break
        defect, detail, mesh_d, qq, cut = best
        return {"reproduced": bool(defect > 1e-9), "key": "C09/%s/%s" % (oracle.split(":")[0], _sig(ctx, mesh_d)),
                "what": "definition %s %s mesh %s mode %s: PyKernel and DLL of the same concrete definition differ "
                        "(relative defect %.3g) %s" % (ctx["name"], ctx["dim"], ctx["lengths"], ctx["mode"], defect, extra),
                "inputs": {"definition": ctx["name"], "dim": ctx["dim"], "mode": ctx["mode"], "cutoff": cut, "q": qq,
                           "mesh": mesh_d}, "detail": detail, "block": None}
    return handler


def _sig(ctx, mesh_d):
    return "lengths=%s" % sorted(set(len(dd) for _v, dd, _w in mesh_d))


def replay(cex):
    i = cex["inputs"]
    if "definition" not in i:
        print(cex.get("what"))
        return 1
    defect, detail = real_defect(i["definition"], i["dim"], i["mesh"], i["q"], i["cutoff"], i["mode"])
    print("relative defect %.3g" % defect, detail)
    return 1 if defect > 1e-9 else 0


# ---------------------------------------------------------------------------
# ill-formed definitions are rejected

def unit_reject(kind):
    u = Unit("reject/" + kind)
    u.functions("sasmodels.modelinfo.parse_parameter", "sasmodels.modelinfo.ParameterTable.check_angles",
                "sasmodels.modelinfo.ParameterTable.check_duplicates", "sasmodels.generate.make_source (xy-mode test)")
    if kind == "limits":
        lb, ub, dv = symx.real("lb"), symx.real("ub"), symx.real("default")
        modelinfo.float = npshim.ident_float if hasattr(modelinfo, "float") else None

        def fn():
            return modelinfo.parse_parameter("p", "Ang", dv, [lb, ub], "volume", "")
        ex = symx.Explorer(max_paths=200)
        paths = ex.explore(fn, [])
        u.absorb(ex, paths)
        for p in paths:
            H = p.constraints()
            if p.exc is None:
                # accepted => lb < ub and lb <= default <= ub
                u.prove("accepted-parameter-has-consistent-limits",
                        z3.And(lb.t < ub.t, lb.t <= dv.t, dv.t <= ub.t), H,
                        lambda m: _reject_cex(m, lb, ub, dv))
            else:
                u.prove("rejection-is-ValueError", z3.BoolVal(isinstance(p.exc, ValueError)), H,
                        lambda m, e=p.exc: {"reproduced": True, "key": "C09/reject/exception-type",
                                            "what": "parse_parameter raised %r" % (e,), "inputs": {}, "block": None})
        return u.r
    # structural ill-formed tables: every one must be refused by make_model_info / make_source
    cases = []
    ang = lambda n: [n, "degrees", 0, [-360, 360], "orientation", ""]
    vol = lambda n: [n, "Ang", 10, [0, inf], "volume", ""]
    if kind == "angles":
        for perm in itertools.permutations(["theta", "phi", "psi"]):
            if list(perm) != ["theta", "phi", "psi"]:
                cases.append(("order %s" % (perm,), [vol("r")] + [ang(a) for a in perm], "Iqabc"))
        cases.append(("psi without theta phi", [vol("r"), ang("psi")], "Iqabc"))
        cases.append(("phi only", [vol("r"), ang("phi")], "Iqac"))
        cases.append(("theta not orientation type", [vol("r"), ["theta", "degrees", 0, [-360, 360], "", ""], ang("phi")], "Iqac"))
        cases.append(("angles not last", [ang("theta"), ang("phi"), vol("r")], "Iqac"))
    if kind == "duplicates":
        cases.append(("duplicate name", [vol("r"), vol("r")], None))
        cases.append(("duplicate after vector expansion", [["n", "", 2, [1, 3], "", ""], vol("t[n]"), vol("t1")], None))
    if kind == "xymode":
        cases.append(("Iqabc for symmetric table", [vol("r"), ang("theta"), ang("phi")], "Iqabc"))
        cases.append(("Iqac for asymmetric table", [vol("r"), ang("theta"), ang("phi"), ang("psi")], "Iqac"))
        cases.append(("Iqac for unoriented table", [vol("r")], "Iqac"))
        cases.append(("no 2-D function for oriented table", [vol("r"), ang("theta"), ang("phi")], None))
    for desc, pars, fn2d in cases:
        exc = None
        try:
            m = types.ModuleType("verif_c09_reject")
            m.__file__ = "/nonexistent/verif_c09_reject.py"
            m.name = "verif_c09_reject"
            m.parameters = pars
            sig = ", ".join("double %s" % p[0] for p in pars if p[4] != "orientation" and "[" not in p[0])
            code = "double Iq(double q, %s) { return q; }\n" % sig
            if fn2d == "Iqac":
                code += "double Iqac(double qab, double qc, %s) { return qc; }\n" % sig
            if fn2d == "Iqabc":
                code += "double Iqabc(double qa, double qb, double qc, %s) { return qc; }\n" % sig
            m.c_code = code
            info = modelinfo.make_model_info(m)
            generate.make_source(info)
        except Exception as e:
            exc = e
        ok = isinstance(exc, (ValueError, TypeError, KeyError))
        u.prove("rejected:" + desc, z3.BoolVal(ok), [],
                lambda mm, desc=desc, exc=exc: {"reproduced": True, "key": "C09/reject/%s/%s" % (kind, desc),
                                                "what": "ill-formed definition (%s) was accepted: %r" % (desc, exc),
                                                "inputs": {"case": desc}, "block": None})
        u.r["paths"] += 1
    return u.r


def _reject_cex(m, lb, ub, dv):
    vals = [float(symx.model_float(m, s.t)) for s in (lb, ub, dv)]
    try:
        modelinfo.parse_parameter("p", "Ang", vals[2], [vals[0], vals[1]], "volume", "")
        accepted = True
    except Exception:
        accepted = False
    bad = accepted and not (vals[0] < vals[1] and vals[0] <= vals[2] <= vals[1])
    return {"reproduced": bad, "key": "C09/reject/limits", "what": "parse_parameter accepted limits=%r default=%r"
            % (vals[:2], vals[2]), "inputs": {"limits": vals[:2], "default": vals[2]}, "block": None}


def _dispatch(item):
    kind, cfg = item
    return unit(cfg) if kind == "agree" else unit_reject(cfg)


def run(chk):
    chk.explanation = (
        "Each generated definition is instantiated with C leaves (real make_source -> IR -> llsym under the real "
        "DllKernel driver) and with Python leaves (real PyModel/PyKernel/_loops on proxies); leaves are the same "
        "uninterpreted functions in both. With every parameter, mesh value/weight, cutoff and q symbolic, z3 shows per "
        "path that the Python accumulators equal the documented weighted sums, equal the C accumulators, and that the "
        "Kernel.Fq outputs of the two executions coincide. Ill-formed definitions: parse_parameter on symbolic "
        "limits/default and enumerated ill-formed tables must be refused.")
    names = QUICK if chk.quick else list(DEFS)
    chk.bounds = {"definitions": names, "mesh": "mono; each dispersible parameter x2; one pair 2x2; 1-D (nq=2) and 2-D (nq=1)",
                  "modes": "0 and every declared effective-radius mode"}
    chk.outside = ["arbitrary Iq expressions (leaves are opaque: the claim is about the generic execution machinery)",
                   "oriented Python models (refused by make_model_info)", "magnetism (not implemented for Python kernels)",
                   "rounding", "effective radius of definitions that declare no modes (Python falls back to an equivalent sphere, C returns 0)"]
    chk.stubs = ["kernelpy.np -> KNp (float buffers become object buffers; isnan -> the symbolic invalid flag)",
                 "PyKernel.dtype -> object", "Python leaves return the uninterpreted functions the C stubs return", "as C01 for the C side"]
    chk.assumptions = ["the Python Iq returns NaN exactly where the validity predicate is false", "cutoff in [0,1)",
                       "weights >= 0", "get_mesh contract for one-point distributions"]
    items = []
    for n in names:
        km, _ = definitions(n)
        info = km.info
        pds = [p.id for p in info.parameters.call_parameters[2:2 + info.parameters.npars] if p.polydisperse]
        modes = [0] + list(range(1, 1 + len(info.radius_effective_modes or [])))
        for dim in ("1d", "2d"):
            for mode in modes:
                items.append(("agree", (n, dim, {}, mode)))
            for p in pds[:3] + pds[-1:]:
                items.append(("agree", (n, dim, {p: 2}, modes[-1])))
            if len(pds) >= 2:
                items.append(("agree", (n, dim, {pds[0]: 2, pds[-1]: 2}, 0)))
            if pds:
                items.append(("agree", (n, dim, {pds[0]: 0}, 0)))
    items = list(dict.fromkeys((k, (c[0], c[1], tuple(sorted(c[2].items())), c[3])) for k, c in items))
    items = [(k, (c[0], c[1], dict(c[2]), c[3])) for k, c in items]
    items += [("reject", k) for k in ("limits", "angles", "duplicates", "xymode")]
    if getattr(chk, "only", None):
        items = [it for it in items if chk.only in (("%s/%s" % (it[1][0], it[1][1])) if it[0] == "agree" else "reject/" + it[1])]
    chk.add(pmap(_dispatch, items))
