"""C04 -- smeared values are the documented resolution integrals (code-level content).

Claimed strength (DESIGN 3/C04): the discrete weights ARE the cell measures of
the documented kernels, so that sum_j W_ij f(q_j) is a midpoint rule for the
documented integral.  Each obligation is an identity over the reals (special
functions uninterpreted) between the weights produced by the real code on
symbolic grids and a reference written from the documentation:

* pinhole: W_ij = m_ij [Phi((e_{j+1}-q_i)/s_i) - Phi((e_j-q_i)/s_i)] / (sum over j),
  Phi(x) = (1 + erf(x/sqrt 2))/2, m_ij = 1[q_i-2.5 s_i <= q_j <= q_i+3 s_i],
  e = mid-points of q_calc plus half-interval ends;
* slit length: W_ij = (u_i(e_{j+1}) - u_i(e_j))/L_i, u_i(e) = clip(sqrt(e^2-q_i^2), 0, L_i);
* slit width: W_ij 2 W_i = m_ij (e_{j+1}-e_j) with the documented indicator of
  [q_i-W_i, q_i+W_i] (twice on [0, W_i-q_i]), or -- "we tweak the edges of the
  initial and final intervals so that they lie on integration limits" -- the
  exact overlap of bin j with that range; either documented reading is accepted
  per data point;
* both: the 61-point average of the length kernel centred at q_i + k W_i/30;
* 2-D: cloud q + Rot(phi_q)(r_a dq_par cos b_b, r_a dq_perp sin b_b), Gaussian
  ring weights, apply = weighted mean.

The limit / rate clause of the property (error proportional to the grid
spacing, bound for smooth intensities) is classical numerical analysis over
transcendental functions and is outside solver reach; it is not checked.
"""
import math
import sys

import numpy as np
import z3

from vlib import symx, ressym as RS
from vlib.harness import pmap
from vlib.symx import Sym, term
from vlib.ressym import (Rel, g_sqrt, g_erf, g_and, g_or, g_not, g_ite, g_max, g_min, g_sum, g_abs,
                         NLOW, NHIGH, SQRT2, bin_edges_ref)
from props import c03

PID = "C04"
_SELF = sys.modules[__name__]


def _ok(o):
    return "exc" not in o


# --------------------------------------------------------------------------
# reference formulas (generic: proxies or floats)

def Phi_diff(a_num, b_num, s):
    """Phi(b/s) - Phi(a/s) with Phi(x) = (1 + erf(x/sqrt2))/2."""
    return (g_erf(b_num / (SQRT2 * s)) - g_erf(a_num / (SQRT2 * s))) / 2.0


def pinhole_ref(qc, q, s):
    """Unnormalised documented bin masses, window indicator applied."""
    e = bin_edges_ref(qc)
    ref = np.empty((len(qc), len(q)), dtype=object)
    for i in range(len(q)):
        for j in range(len(qc)):
            inside = g_and(qc[j] >= q[i] - NLOW * s[i], qc[j] <= q[i] + NHIGH * s[i])
            ref[j, i] = g_ite(inside, Phi_diff(e[j] - q[i], e[j + 1] - q[i], s[i]), 0.0)
    return ref


def u_clip(e, q, L):
    """clip(sqrt(e^2 - q^2), 0, L) as a function of the bin edge e."""
    return g_ite(e <= g_abs(q), 0.0,
                 g_ite(e * e >= q * q + L * L, L, g_sqrt(e * e - q * q)))


def qperp_ref(e, q, L):
    return [(u_clip(e[j + 1], q, L) - u_clip(e[j], q, L)) / L for j in range(len(e) - 1)]


def overlap(lo, hi, a, b):
    """|[lo,hi] intersected with [a,b]| (0 when empty)."""
    x = g_min(hi, b) - g_max(lo, a)
    return g_max(x, 0.0)


def width_indicator(qc_j, q, W):
    """documented: 1 on [q-W, q+W], one more on [0, W-q] when q < W."""
    m = g_ite(g_and(qc_j >= q - W, qc_j <= q + W), 1.0, 0.0)
    return m + g_ite(g_and(q < W, qc_j < W - q), 1.0, 0.0)


def width_overlap(e_lo, e_hi, q, W):
    """exact measure of bin [e_lo, e_hi] under v -> |q+v|, v in [-W, W]."""
    direct = overlap(e_lo, e_hi, g_max(q - W, 0.0), q + W)
    folded = g_ite(q < W, overlap(e_lo, e_hi, 0.0, W - q), 0.0)
    return direct + folded


# --------------------------------------------------------------------------
# oracles

def pm_formula(scn, v, o):
    if not _ok(o):
        return []
    qc, q, s, W = v["qc"], v["q"], v["s"], o["W"]
    ref = pinhole_ref(qc, q, s)
    out = []
    for i in range(len(q)):
        S = g_sum(ref[:, i])
        for j in range(len(qc)):
            out.append(Rel("eq", W[j, i] * S, ref[j, i],
                           "W[%d,%d] = windowed Gaussian bin mass / column total" % (j, i)))
    return out


def qp_formula(scn, v, o):
    if not _ok(o):
        return []
    ref = qperp_ref(list(v["e"]), v["qi"], v["w"])
    return [Rel("eq", o["P"][j], ref[j], "length-kernel weight %d = (u(e_j+1)-u(e_j))/L" % j)
            for j in range(len(ref))]


def sm_formula(scn, v, o):
    if not _ok(o):
        return []
    mode = scn.cfg["mode"]
    qc, q, W = list(v["qc"]), v["q"], o["W"]
    e = bin_edges_ref(qc)
    out = []
    for i in range(len(q)):
        Li, Wi = v["L"][i], v["W"][i]
        if mode == "L":
            ref = qperp_ref(e, q[i], Li)
            out += [Rel("eq", W[j, i], ref[j], "W[%d,%d] = (u(e_j+1)-u(e_j))/L" % (j, i)) for j in range(len(qc))]
        elif mode == "W":
            ties = g_or(*[g_or(qc[j] == q[i] - Wi, qc[j] == q[i] + Wi, qc[j] == Wi - q[i]) for j in range(len(qc))])
            ind = g_and(*[_eq(W[j, i] * (2.0 * Wi), width_indicator(qc[j], q[i], Wi) * (e[j + 1] - e[j]))
                          for j in range(len(qc))])
            cell = g_and(*[_eq(W[j, i] * (2.0 * Wi), width_overlap(e[j], e[j + 1], q[i], Wi))
                           for j in range(len(qc))])
            out.append(Rel("true", g_or(ind, cell),
                           "column %d: W 2W = indicator x bin width (mid-point rule) or exact bin overlap "
                           "with [q-W, q+W] folded at 0" % i, when=g_not(ties)))
        elif mode == "LW":
            n = 30
            for j in range(len(qc)):
                terms = []
                for k in range(-n, n + 1):
                    qk = q[i] + k * Wi / n
                    if RS.issym(qk, Li):
                        terms.append(symx.uf("qperp%d" % j, qk, Li))
                    else:
                        terms.append(qperp_ref(e, qk, Li)[j])
                out.append(Rel("eq", W[j, i] * float(2 * n + 1), g_sum(terms),
                               "W[%d,%d] = mean over k of the length kernel at q + k W/30" % (j, i)))
            for edges in o.get("notes", {}).get("qperp_edges", [])[:2]:
                out += [Rel("eq", edges[j], e[j], "length kernel gets the documented bin edges")
                        for j in range(len(e))]
    return out


def _eq(a, b):
    if RS.issym(a, b):
        return symx.SymBool(term(a) == term(b))
    a, b = float(a), float(b)
    return abs(a - b) <= 1e-9 * max(1.0, abs(a), abs(b))


def ctor_formula(scn, v, o):
    """apply(f)_i = sum_j W_ji f_j with W the builder's matrix for (q_calc, q, widths)."""
    if not _ok(o):
        return []
    A, W = o["apply"], o["W"]
    f = A["f"]
    return [Rel("eq", A["rf"][i], g_sum([W[j, i] * f[j] for j in range(W.shape[0])]),
                "apply(f)[%d] = sum_j W[j,%d] f[j]" % (i, i)) for i in range(W.shape[1])]


def p1_folded(scn, v, o):
    """Pinhole1D evaluates the documented Gaussian on the whole window: when
    [q-2.5s, q+3s] reaches below zero (beyond the excluded band |q'| < 0.02 min q)
    the grid handed to the weight-matrix builder keeps the negative points down to
    the window limit, and the theory is requested at their absolute values
    (the sub-zero part of the kernel is folded onto |q'|, not cut off and renormalised)."""
    if not _ok(o):
        return []
    q, s, G, qc = v["q"], o["s"], list(o["G"]), list(o["qcalc"])
    cut = 0.02 * q[0]
    lo = [q[i] - NLOW * s[i] for i in range(len(q))]
    qmin = lo[0]
    for x in lo[1:]:
        qmin = g_min(qmin, x)
    reaches = qmin <= -cut
    out = [Rel("le", G[0], lo[i] + 2e-8, "signed grid reaches down to q[%d]-2.5s < 0" % i, when=reaches, scale=0.0)
           for i in range(len(q))]
    out.append(Rel("true", len(qc) == len(G), "one q_calc value per weight-matrix row"))
    out += [Rel("eq", qc[j], g_abs(G[j]), "q_calc[%d] = |signed grid point|" % j) for j in range(min(len(G), len(qc)))]
    return out


def p2_constants(acc):
    nr = {"xhigh": 10, "high": 5, "med": 5, "low": 3}[acc]
    nphi = {"xhigh": 20, "high": 12, "med": 6, "low": 4}[acc]
    nsigma = 3.0                       # documented truncation
    delta = nsigma / nr                # ring width
    r = delta / 2.0 + np.arange(nr) * delta          # ring mid radii (a + 1/2) delta
    beta = np.arange(nphi) * 2.0 * np.pi / nphi      # 2 pi b / nphi
    w = np.exp(-0.5 * (r - delta / 2.0) ** 2) - np.exp(-0.5 * (r + delta / 2.0) ** 2)
    return nr, nphi, r, beta, w


def p2_cloud(scn, v, o, only=None, only_phi=None):
    """q_calc is the documented polar cloud around each data point, aligned with the q direction."""
    if not _ok(o) or o["weights"] is None:
        return []
    nr, nphi, r, beta, w = p2_constants(scn.cfg.get("accuracy", "low"))
    qx, qy = v["qx"], v["qy"]
    n = len(qx)
    floor = 1.0e-10                    # documented substitute for a vanishing width
    out = [Rel("true", o["nbins"] == nr * nphi, "nr x nphi cloud points")] if not only_phi else []
    for i in range(n):
        if only is not None and i != only:
            continue
        dpar, dperp = v["dpar"][i], v["dperp"][i]
        qr = g_sqrt(qx[i] * qx[i] + qy[i] * qy[i])
        for b in range(nphi):
            if only_phi is not None and b != only_phi:
                continue
            cb, sb = float(np.cos(beta[b])), float(np.sin(beta[b]))
            for a in range(nr):
                p = (b * nr + a) * n + i
                # a width below the floor is replaced by 1e-10; that branch is a product of
                # doubles (rounded as the code rounds it), the other one is exact in the width
                rho_par = g_ite(dpar >= floor, (r[a] * dpar) * cb, (float(r[a]) * floor) * cb)
                rho_perp = g_ite(dperp >= floor, (r[a] * dperp) * sb, (float(r[a]) * floor) * sb)
                out.append(Rel("eq", o["qx_calc"][p] * qr, qx[i] * qr + rho_par * qx[i] - rho_perp * qy[i],
                               "qx cloud point (i=%d, r=%d, phi=%d) = q + Rot(q)(par, perp)" % (i, a, b)))
                out.append(Rel("eq", o["qy_calc"][p] * qr, qy[i] * qr + rho_par * qy[i] + rho_perp * qx[i],
                               "qy cloud point (i=%d, r=%d, phi=%d) = q + Rot(q)(par, perp)" % (i, a, b)))
    return out


def p2_weights(scn, v, o):
    if not _ok(o) or o["weights"] is None:
        return []
    nr, nphi, r, beta, w = p2_constants(scn.cfg.get("accuracy", "low"))
    n = len(v["qx"])
    A = o["apply"]
    out = []
    for b in range(nphi):
        for a in range(nr):
            out.append(Rel("eq", float(o["weights"][b * nr + a]), float(w[a]),
                           "ring weight (r=%d, phi=%d) = exp(-(r-d/2)^2/2) - exp(-(r+d/2)^2/2)" % (a, b), scale=0.0))
    tot = float(nphi) * g_sum([Sym(symx.rat(x)) if RS.issym(*v["qx"]) else float(x) for x in w])
    for i in range(n):
        acc = g_sum([(Sym(symx.rat(w[a])) if RS.issym(*v["qx"]) else float(w[a])) * A["f"][(b * nr + a) * n + i]
                     for b in range(nphi) for a in range(nr)])
        out.append(Rel("eq", A["rf"][i] * tot, acc, "apply(f)[%d] = ring-weighted mean over the cloud" % i))
    return out


ORACLES = {
    "pinhole-matrix": [("pinhole-formula", pm_formula)],
    "qperp": [("slit-length-formula", qp_formula)],
    "slit-matrix": [("slit-formula", sm_formula)],
    "pinhole1d": [("apply-is-weighted-sum", ctor_formula), ("builder-args", c03.p1_args),
                  ("stores-result", c03.ctor_stores)],
    "slit1d": [("apply-is-weighted-sum", ctor_formula), ("builder-args", c03.s1_args),
               ("stores-result", c03.ctor_stores)],
    "pinhole2d": [("cloud", p2_cloud), ("ring-weights-and-mean", p2_weights)],
}


def p2_rotation_lemma(scn, v, o):
    """With phi = arctan(qy/qx): |q| cos(-phi) = |qx| and |q| sin(-phi) = -qy sign(qx)
    (consequence of the angle axioms; proved first, then used by the cloud identities)."""
    if not _ok(o) or o["weights"] is None:
        return []
    out = []
    for i in range(len(v["qx"])):
        qx, qy = v["qx"][i], v["qy"][i]
        if RS.issym(qx, qy):
            phi = symx.uf("atan", qy / qx)
            c, s_ = symx.uf("cos", -phi), symx.uf("sin", -phi)
        else:
            phi = math.atan(qy / qx)
            c, s_ = math.cos(-phi), math.sin(-phi)
        r = g_sqrt(qx * qx + qy * qy)
        out.append(Rel("eq", c * r, qx, "|q| cos(phi_q) = qx for qx > 0 (point %d)" % i, when=qx > 0))
        out.append(Rel("eq", s_ * r, -qy, "|q| sin(-phi_q) = -qy for qx > 0 (point %d)" % i, when=qx > 0))
        out.append(Rel("eq", c * r, -qx, "|q| cos(phi_q) = -qx for qx < 0 (point %d)" % i, when=g_not(qx > 0)))
        out.append(Rel("eq", s_ * r, qy, "|q| sin(-phi_q) = qy for qx < 0 (point %d)" % i, when=g_not(qx > 0)))
    return out


class _CloudOf:
    """cloud obligation of one data point and one azimuth (data points are
    independent; small polynomial queries are decided much faster than their conjunction)."""

    slice = True      # hypotheses about the other data points are irrelevant (and slow nlsat down)

    def __init__(self, i, b):
        self.i, self.b = i, b

    def __call__(self, scn, v, o):
        return p2_cloud(scn, v, o, only=self.i, only_phi=self.b)


def oracles_for(scn):
    if scn.kind == "pinhole1d" and scn.cfg.get("grid") != "user":
        return list(ORACLES["pinhole1d"]) + [("window-folded-at-zero", p1_folded)]
    if scn.kind == "slit-matrix" and scn.cfg["mode"] == "00":
        return [("zero-width-identity", c03.sm_zero)]
    if scn.kind == "pinhole2d":
        nphi = p2_constants(scn.cfg.get("accuracy", "low"))[1]
        return [("lemma:rotation", p2_rotation_lemma)] + \
               [("cloud" if i == 0 else "cloud-point-%d" % i, _CloudOf(i, b))
                for i in range(scn.cfg["n"]) for b in range(nphi)] + [("ring-weights-and-mean", p2_weights)]
    return list(ORACLES[scn.kind])


def guarantees(scn, v, o, notes):
    hyp = []
    # angle leaves of the 2-D cloud: phi = atan(t): cos phi > 0, sin phi = t cos phi,
    # cos^2 + sin^2 = 1; cos(-phi) = cos phi, sin(-phi) = -sin phi
    if scn.kind == "pinhole2d" and _ok(o) and o.get("weights") is not None:
        ts = [term(x) for x in list(o["qx_calc"]) + list(o["qy_calc"])]
        for a in symx.apps_of(ts, {"atan"}):
            t = a.arg(0)
            c = symx.uf_decl("cos", 1)(z3.simplify(-a))
            s = symx.uf_decl("sin", 1)(z3.simplify(-a))
            num, den = RS._fraction(t)
            tan = (s == -(t * c)) if den is None else (s * den == -(num * c))   # den != 0 assumed (qx != 0)
            hyp += [c > 0, tan, c * c + s * s == 1]
    return hyp


def preconditions(scn, v, o):
    return c03.preconditions(scn, v, o)


def classify(scn, oname, v, o_sym, vals=None, bad=()):
    key = "%s/%s/%s" % (PID, scn.kind, oname)
    block = None
    if scn.kind == "slit-matrix":
        key = "%s/slit-matrix-%s/%s" % (PID, scn.cfg["mode"], oname)
    if scn.kind == "pinhole2d" and oname.startswith("cloud") and vals is not None \
            and np.asarray(vals["qx"])[int(oname.rsplit("-", 1)[1]) if oname.startswith("cloud-point-") else 0] < 0:
        key = "%s/pinhole2d/cloud-centred-at-minus-q-for-negative-qx" % PID
        i = int(oname.rsplit("-", 1)[1]) if oname.startswith("cloud-point-") else 0
        block = z3.Not(term(v["qx"][i]) > 0)
    return key, block


make = c03.make


def unit(job):
    return c03.run_unit(job, _SELF)


def configs(chk):
    quick = chk.quick
    jobs = []
    for nq in (1, 2):
        for nc in ((2, 3, 4) if quick else (2, 3, 4, 5)):
            jobs.append(("pinhole-matrix", {"nc": nc, "nq": nq}))
    for ne in ((2, 3, 4) if quick else (2, 3, 4, 5, 6)):
        jobs.append(("qperp", {"ne": ne}) + (("extended",) if ne > 5 else ()))
    for mode in ("00", "L", "W", "LW"):
        for nc, nq in [(2, 1), (3, 1), (2, 2)]:
            jobs.append(("slit-matrix", {"mode": mode, "nc": nc, "nq": nq}))
        if not quick:
            for nc, nq in [(4, 1), (3, 2)]:
                jobs.append(("slit-matrix", {"mode": mode, "nc": nc, "nq": nq}) + (("extended",) if mode == "L" else ()))
    nmax = 2 if quick else 3
    for n in range(1, nmax + 1):
        jobs.append(("pinhole1d", {"n": n}))
        jobs.append(("pinhole1d", {"n": n, "grid": "user", "nc": 3}))
        for mode in ("L", "W", "LW"):
            # per-point lengths on three points fork too often in the grid extension: scalar there
            shape = "scalar" if ("L" in mode and n > 2) else "vector"
            jobs.append(("slit1d", {"mode": mode, "shape": shape, "n": n}))
        jobs.append(("slit1d", {"mode": "LW", "shape": "scalar", "n": n, "grid": "user", "nc": 3}))
    for acc in (("low", "med") if quick else ("low", "med", "high", "xhigh")):
        for n in (1, 2):
            if n == 2 and acc == "xhigh":
                continue
            jobs.append(("pinhole2d", {"n": n, "accuracy": acc}))
    return jobs


def run(chk):
    chk.explanation = (
        "Code-level content of C04: the real weight-matrix builders run on fully symbolic grids (z3 proxies in "
        "numpy object arrays); every weight term is proved equal (identity over the reals, special functions "
        "uninterpreted with instantiated axioms) to the cell measure of the documented kernel written from the "
        "docstrings: truncated/renormalised Gaussian bin masses with the sqrt(2) and the (-2.5,+3) sigma window, "
        "the u=sqrt(q'^2-q^2) slit-length bins with 1/L, the slit-width bins with 1/2W and reflection at 0, the "
        "61-point average for both, the 2-D polar cloud rotated onto the q direction with Gaussian ring weights; "
        "constructors pass (q_calc, q, widths) to the builders unchanged and apply is the weighted sum / mean. "
        "The convergence-rate clause is not machine-checked.")
    chk.bounds = {"data points": "1..%d" % (2 if chk.quick else 3),
                  "q_calc points (matrix builders)": "2..%d" % (4 if chk.quick else 5),
                  "2-D accuracy": "low, med" + ("" if chk.quick else ", high, xhigh"),
                  "grid-extension trip count per side": "<= %d" % RS.MAXEXT,
                  "solver timeout": "60 s per obligation"}
    chk.outside = ["the limit / rate statement of the property (error proportional to h, bound for smooth I(q)): "
                   "classical numerical analysis over transcendental functions, outside solver reach",
                   "accuracy of erf / sqrt / exp themselves (uninterpreted); floating-point rounding",
                   "2-D: data points with qx = 0 (the code relies on IEEE inf in arctan(qy/qx))",
                   "Slit2D (its apply raises on this numpy, see C03 finding)"]
    chk.stubs = list(RS.STUBS) + [
        "slit_resolution mode LW: _q_perp_weights -> one uninterpreted function per bin (its formula is the qperp obligation)",
        "constructors: matrix builders recorded, result replaced by a fresh symbolic matrix",
        "Pinhole2D: concrete ring weights lifted to exact rationals before apply; angle leaves: phi=atan(t): "
        "cos(-phi)>0, sin(-phi)=-t cos(-phi), cos^2+sin^2=1"]
    chk.assumptions = ["q strictly increasing > 0, q_calc strictly increasing (> 0 for slit), widths > 0",
                       "slit width-only: no q_calc point exactly on a window limit (indicator convention at a point)",
                       "2-D: qx != 0; a vanishing width is replaced by the documented 1e-10",
                       "doubles modelled as reals; sqrt(2), 2 pi b/nphi, ring radii are the exact values of the doubles"]
    jobs = configs(chk)
    if getattr(chk, "only", None):
        jobs = [j for j in jobs if chk.only in make(*j[:2]).name]
    chk.add(pmap(unit, jobs))


def replay(cex):
    i = cex["inputs"]
    scn = make(i["kind"], i["cfg"])
    vals = {k: (np.asarray(x, dtype=float) if isinstance(x, list) else x) for k, x in i["values"].items()}
    bad, o = c03.replay_numeric(scn, i["oracle"], vals, _SELF)
    print("real code, %s with %s ->" % (scn.name, i["values"]))
    for k in ("exc", "W", "P", "qx_calc", "qy_calc"):
        if k in o:
            print("  %s = %s" % (k, o[k]))
    print("differs from the documented formula (%s): %s" % (i["oracle"], bad))
    return 1 if bad else 0
