import numpy as np
from sasmodels import core, direct_model, weights
info=core.load_model_info('core_shell_sphere')
model=core.build_model(info,dtype='d',platform='dll')
q=np.array([0.01,0.05])
k=model.make_kernel([q])
pars=dict(radius=50., radius_pd=0.5, radius_pd_n=2, radius_pd_nsigma=3, background=0)
print(weights.get_weights('gaussian',2,0.5,3,50.,[0,np.inf],True))
I=direct_model.call_kernel(k,pars)
I125=direct_model.call_kernel(k,dict(radius=125.,background=0))
I50=direct_model.call_kernel(k,dict(radius=50.,background=0))
print(I, I125, I50)
# sphere (radius is last param)
info=core.load_model_info('sphere'); model=core.build_model(info,dtype='d',platform='dll'); k=model.make_kernel([q])
print(direct_model.call_kernel(k,pars), direct_model.call_kernel(k,dict(radius=125.,background=0)), direct_model.call_kernel(k,dict(radius=50.,background=0)))
# empty mesh
info=core.load_model_info('cylinder'); model=core.build_model(info,dtype='d',platform='dll')
junk=np.full(6,7.0); del junk
k=model.make_kernel([q,q])
print('empty', direct_model.call_kernel(k,dict(theta_pd=500,theta_pd_n=2,background=0.25)))
a=np.full(2+4,123.0); del a
k=model.make_kernel([q])
print('empty1d', direct_model.call_kernel(k,dict(radius=-1,background=0.25)))
# stale after nonempty call
k=model.make_kernel([q])
print(direct_model.call_kernel(k,dict(background=0.25)))
print('stale', direct_model.call_kernel(k,dict(radius=-1,background=0.25)))
