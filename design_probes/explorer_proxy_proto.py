"""Throw-away probe: explorer + proxies on the real weights.get_weights."""
import numpy as np, z3, time, fractions, sys
from sasmodels import weights

class Explorer:
    def __init__(self): self.sol=z3.Solver(); self.checks=0
    def decide(self,cond):
        i=self.pos; self.pos+=1
        if i<len(self.sched):
            b=self.sched[i]
        else:
            self.checks+=2
            self.sol.push(); self.sol.add(cond); t=str(self.sol.check())=='sat'; self.sol.pop()
            self.sol.push(); self.sol.add(z3.Not(cond)); f=str(self.sol.check())=='sat'; self.sol.pop()
            if t and f: self.work.append(self.sched[:i]+[False]); b=True
            elif t: b=True
            elif f: b=False
            else: raise RuntimeError('infeasible path')
            self.sched.append(b)
        self.sol.add(cond if b else z3.Not(cond)); self.pc.append(cond if b else z3.Not(cond))
        return b
    def run(self,fn,assume):
        self.work=[[]]; paths=[]
        while self.work:
            self.sched=self.work.pop(); self.pos=0; self.pc=[]
            self.sol.push(); self.sol.add(*assume)
            try: out=fn()
            except Exception as e: out=e
            paths.append((list(self.pc),out,self.sol.assertions()))
            self.sol.pop()
        return paths
EX=Explorer()
def L(o):
    if isinstance(o,R): return o.t
    if isinstance(o,(int,np.integer)): return z3.RealVal(int(o))
    f=float(o)
    if f in (float('inf'),float('-inf')): raise OverflowError
    return z3.RealVal(str(fractions.Fraction(f)))
UF={}
def uf(name,*a):
    f=UF.setdefault(name,z3.Function(name,*([z3.RealSort()]*(len(a)+1)))); return R(f(*[x.t for x in a]))
class R:
    def __init__(s,t): s.t=t
    def _b(s,o,f):
        if isinstance(o,np.ndarray): return NotImplemented
        return R(f(s.t,L(o)))
    def __add__(s,o): return s._b(o,lambda a,b:a+b)
    __radd__=__add__
    def __sub__(s,o): return s._b(o,lambda a,b:a-b)
    def __rsub__(s,o): return s._b(o,lambda a,b:b-a)
    def __mul__(s,o): return s._b(o,lambda a,b:a*b)
    __rmul__=__mul__
    def __truediv__(s,o): return s._b(o,lambda a,b:a/b)
    def __rtruediv__(s,o): return s._b(o,lambda a,b:b/a)
    def __neg__(s): return R(-s.t)
    def __pos__(s): return s
    def __pow__(s,k): assert k==2; return R(s.t*s.t)
    def exp(s): return uf('exp',s)
    def _c(s,o,f):
        if isinstance(o,np.ndarray): return NotImplemented
        if isinstance(o,float) and o==float('inf'): return f is z3.ArithRef.__lt__ or f is z3.ArithRef.__le__ or False
        return B(f(s.t,L(o)))
    def __lt__(s,o): return B(s.t<L(o))
    def __le__(s,o):
        if isinstance(o,np.ndarray): return NotImplemented
        return B(s.t<=L(o))
    def __gt__(s,o): return B(s.t>L(o))
    def __ge__(s,o):
        if isinstance(o,np.ndarray): return NotImplemented
        return B(s.t>=L(o))
    def __eq__(s,o): return B(s.t==L(o))
    def __ne__(s,o): return B(s.t!=L(o))
    __hash__=None
class B:
    def __init__(s,t): s.t=t
    def __bool__(s): return EX.decide(s.t)
c,w,ns,lb,ub=[R(z3.Real(n)) for n in 'c w ns lb ub'.split()]
assume=[c.t>0,w.t>0,ns.t>0,lb.t<=ub.t]
for n in (2,3,4,6,8):
    t=time.time(); nviol=0; nob=0
    def fn(): return weights.get_weights('gaussian',n,w,ns,c,(lb,ub),True)
    paths=EX.run(fn,assume)
    for pc,out,asserts in paths:
        if isinstance(out,Exception): print('  exc',type(out).__name__,out); continue
        x,wt=out
        if len(x)==0: continue
        s=z3.Solver(); s.add(*assume); s.add(*pc)
        for e in set(str(v.t) for v in wt): pass
        exps=[t_ for t_ in UF and []]
        obl=[z3.And(*[x[i].t<x[i+1].t for i in range(len(x)-1)]) if len(x)>1 else z3.BoolVal(True),
             z3.And(*[z3.And(v.t>=lb.t,v.t<=ub.t) for v in x])]
        # sum to one with exp>0 axioms instantiated on atoms
        ax=[]
        def atoms(e,acc):
            if z3.is_app(e) and e.decl().name()=='exp': acc.add(e)
            for ch in e.children(): atoms(ch,acc)
        acc=set()
        for v in wt: atoms(v.t,acc)
        ax=[a>0 for a in acc]
        obl.append(sum(v.t for v in wt)==1)
        for o in obl:
            nob+=1; s.push(); s.add(*ax); s.add(z3.Not(o)); r=str(s.check()); s.pop()
            if r!='unsat': nviol+=1; print('  ',r,o if len(str(o))<80 else '...')
    print('npts',n,'paths',len(paths),'obligations',nob,'not-unsat',nviol,'solver checks',EX.checks,'time %.2fs'%(time.time()-t))
