import z3, time
S=z3.StringSort(); RS=z3.ReSort(S)
ANY=z3.AllChar(RS); ALL=z3.Full(RS)
W=z3.Union(z3.Range('a','z'),z3.Range('A','Z'),z3.Range('0','9'),z3.Re('_'))
NW=z3.Diff(ANY,W)
MK=z3.Re('\x01'); CH=z3.Diff(ANY,MK)   # source chars exclude the marker
NWs=z3.Diff(NW,MK)
def lit(s, mk=False):
    parts=[]
    for ch in s:
        parts.append(z3.Re(ch))
        if mk: parts.append(z3.Option(MK))
    return z3.Concat(*parts) if len(parts)>1 else parts[0]
def pat(mk):
    o=(lambda r: z3.Concat(r,z3.Option(MK))) if mk else (lambda r:r)
    lead=z3.Concat(o(NWs), z3.Option(o(z3.Re('c'))))
    digs=z3.Option(z3.Union(o(z3.Re('2')),o(z3.Re('4')),o(z3.Re('8')),z3.Concat(o(z3.Re('1')),o(z3.Re('6')))))
    tail=NWs   # last char: no trailing marker needed
    return lead, z3.Concat(lit('double',mk),digs,tail)
lead,rest=pat(False); R=z3.Concat(lead,rest); R0=rest  # R0: the '^' alternative (no leading char), valid at pos 0
leadm,restm=pat(True); Rm=z3.Concat(leadm,restm)
u0,m1,u1=z3.Strings('u0 m1 u1')
s=z3.Solver(); s.set('timeout',120000)
star=z3.Star(CH)
s.add(z3.InRe(u0,star),z3.InRe(u1,star))
# K=1 decomposition: s = u0 m1 u1 ; m1 is leftmost match
s.add(z3.Or(z3.And(z3.Length(u0)==0, z3.InRe(m1,R0)), z3.InRe(m1,R)))
# no match starts inside u0 (match may run into m1,u1): marked string u0 MK m1 u1 has no R-with-markers match starting before the marker
t0=z3.Concat(u0,z3.StringVal('\x01'),m1,u1)
s.add(z3.Not(z3.InRe(t0, z3.Concat(star, Rm, ALL))))   # start within u0 (before marker) -- over-approx: also forbids none after
# and not the ^ alternative at pos 0 unless chosen
s.add(z3.Implies(z3.Length(u0)>0, z3.Not(z3.InRe(z3.Concat(u0,m1,u1), z3.Concat(R0,ALL)))))
# no match starts inside u1 (scan resumes at u1 start; lookbehind-free pattern)
s.add(z3.Not(z3.InRe(u1, z3.Concat(star,R,ALL))))
s.add(z3.Not(z3.InRe(u1, z3.Concat(star,lead,lit('double'),z3.Option(z3.Union(z3.Re('2'),z3.Re('4'),z3.Re('8'),z3.Re('16')))))))  # $ alternative at end
# violation: u1 contains a delimited keyword token: left delimiter is last char of m1 (nonword) when token at start of u1
tok=lit('double')
s.add(z3.InRe(u1, z3.Concat(tok, z3.Option(z3.Concat(NWs,star)))))   # token at start of u1, delimited right by nonword/end
s.add(z3.InRe(m1, z3.Concat(ALL,NWs)))
s.add(z3.Length(u0)+z3.Length(m1)+z3.Length(u1)<=20)
t=time.time(); r=s.check(); print(r, round(time.time()-t,2))
if str(r)=='sat':
    m=s.model(); print(repr(m[u0]),repr(m[m1]),repr(m[u1]))
