import os, subprocess, sys, collections, re
from concurrent.futures import ThreadPoolExecutor
from sasmodels import core, generate
names=[n for n in core.list_models() if not callable(core.load_model_info(n).Iq)]
print(len(names),'C models')
def build(n):
    info=core.load_model_info(n)
    src=generate.convert_type(generate.make_source(info)['dll'], generate.F64)
    c='ir/%s.c'%n; open(c,'w').write(src)
    r=subprocess.run(['clang','-std=c99','-fgnu89-inline','-O0','-Xclang','-disable-O0-optnone','-ffp-contract=off','-S','-emit-llvm','-w',c,'-o','ir/%s.0.ll'%n],capture_output=True,text=True)
    if r.returncode: return n,'clang fail '+r.stderr[:200]
    r=subprocess.run(['/usr/lib/llvm-14/bin/opt','-S','-mem2reg','-instsimplify','ir/%s.0.ll'%n,'-o','ir/%s.ll'%n],capture_output=True,text=True)
    if r.returncode: return n,'opt fail '+r.stderr[:200]
    return n,'ok'
with ThreadPoolExecutor(16) as ex: res=list(ex.map(build,names))
print([r for r in res if r[1]!='ok'])
ops=collections.Counter(); calls=collections.Counter(); decl=set()
for n in names:
    for line in open('ir/%s.ll'%n):
        m=re.match(r'\s+(?:%[\w.]+ = )?(?:tail |musttail |notail )?([a-z_]+)',line)
        if m and line.startswith('  '): ops[m.group(1)]+=1
        m=re.search(r'call [^@]*@([\w.]+)\(',line)
        if m: calls[m.group(1)]+=1
        m=re.match(r'declare [^@]*@([\w.]+)\(',line)
        if m: decl.add(m.group(1))
print(ops.most_common())
print('external decls:',sorted(decl))
