import z3, time
names='st ct sp cp ss cs sdt cdt sdp cdp sds cds qx qy'.split()
st,ct,sp,cp,ss,cs,sdt,cdt,sdp,cdp,sds,cds,qx,qy=[z3.Real(n) for n in names]
def Rx(s,c): return [[1,0,0],[0,c,-s],[0,s,c]]
def Ry(s,c): return [[c,0,s],[0,1,0],[-s,0,c]]
def Rz(s,c): return [[c,-s,0],[s,c,0],[0,0,1]]
def mm(A,B): return [[sum(A[i][k]*B[k][j] for k in range(3)) for j in range(3)] for i in range(3)]
def inv(R): return [[R[j][i] for j in range(3)] for i in range(3)]
R=Rz(sp,cp)
for M in (Ry(st,ct),Rz(ss,cs),Rx(sdp,cdp),Ry(sdt,cdt),Rz(sds,cds)): R=mm(R,M)
Ri=inv(R)
qa=Ri[0][0]*qx+Ri[0][1]*qy; qb=Ri[1][0]*qx+Ri[1][1]*qy; qc=Ri[2][0]*qx+Ri[2][1]*qy
# kernel code transcription (probe only)
sin_theta,cos_theta,sin_phi,cos_phi,sin_psi,cos_psi=st,ct,sp,cp,ss,cs
V11 = -sin_phi*sin_psi + cos_phi*cos_psi*cos_theta
V12 = sin_phi*cos_psi*cos_theta + sin_psi*cos_phi
V21 = -sin_phi*cos_psi - sin_psi*cos_phi*cos_theta
V22 = -sin_phi*sin_psi*cos_theta + cos_phi*cos_psi
V31 = sin_theta*cos_phi
V32 = sin_phi*sin_theta
sin_theta,cos_theta,sin_phi,cos_phi,sin_psi,cos_psi=sdt,cdt,sdp,cdp,sds,cds
J11 = cos_psi*cos_theta
J12 = sin_phi*sin_theta*cos_psi + sin_psi*cos_phi
J13 = sin_phi*sin_psi - sin_theta*cos_phi*cos_psi
J21 = -sin_psi*cos_theta
J22 = -sin_phi*sin_psi*sin_theta + cos_phi*cos_psi
J23 = sin_phi*cos_psi + sin_psi*sin_theta*cos_phi
J31 = sin_theta
J32 = -sin_phi*cos_theta
J33 = cos_phi*cos_theta
R11 = J11*V11 + J12*V21 + J13*V31
R12 = J11*V12 + J12*V22 + J13*V32
R21 = J21*V11 + J22*V21 + J23*V31
R22 = J21*V12 + J22*V22 + J23*V32
R31 = J31*V11 + J32*V21 + J33*V31
R32 = J31*V12 + J32*V22 + J33*V32
ka=R11*qx+R12*qy; kb=R21*qx+R22*qy; kc=R31*qx+R32*qy
s=z3.Solver()
circ=[st*st+ct*ct==1, sp*sp+cp*cp==1, ss*ss+cs*cs==1, sdt*sdt+cdt*cdt==1, sdp*sdp+cdp*cdp==1, sds*sds+cds*cds==1]
for c in circ: s.add(c)
s.add(z3.Or(qa!=ka, qb!=kb, qc!=kc))
t=time.time(); print(s.check(), time.time()-t)
if str(s.check())=='sat':
    m=s.model(); print({n:m[z3.Real(n)] for n in names})
# without circle constraints (pure polynomial identity)
s=z3.Solver(); s.add(z3.Or(qa!=ka, qb!=kb, qc!=kc)); t=time.time(); print('nocirc',s.check(), time.time()-t)
