import numpy as np, warnings
warnings.filterwarnings('ignore')
from sasmodels import core, direct_model
UNIT_POW={'Ang':1,'Ang^2':2,'Ang^3':3,'1/Ang':-1,'1/Ang^2':-2,'':0,'degrees':0,'None':0}
res=[]
for name in core.list_models():
    info=core.load_model_info(name)
    if not (info.category or '').startswith('shape:'): continue
    units=set(p.units for p in info.parameters.kernel_parameters)
    odd=[p.units for p in info.parameters.kernel_parameters if p.units not in UNIT_POW and p.type!='sld']
    if odd: res.append((name,'skip units',odd)); continue
    try:
        model=core.build_model(info,dtype='d',platform='dll')
    except Exception as e:
        res.append((name,'build fail',str(e)[:50])); continue
    q=np.array([0.003,0.02,0.11])
    lam=1.7
    pars=dict(info.parameters.defaults); pars['background']=0
    p2=dict(pars)
    for p in info.parameters.call_parameters:
        if p.type=='sld' or p.units not in UNIT_POW: continue
        k=UNIT_POW[p.units]
        if k: p2[p.id]=pars[p.id]*lam**k
    k1=model.make_kernel([q]); k2=model.make_kernel([q/lam])
    I1=direct_model.call_kernel(k1,pars); I2=direct_model.call_kernel(k2,p2)
    r=I2/I1/lam**3
    res.append((name,'ratio',np.round(r,6)))
for r in res: print(*r)
