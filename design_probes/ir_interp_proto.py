"""Throw-away probe: minimal LLVM-IR symbolic interpreter, enough for <model>_Iq (no magnetism)."""
import re, z3, fractions, struct, time, sys
class Mod: pass
def parse_type(t, M):
    t=t.strip()
    if t.endswith('*'): return ('ptr',parse_type(t[:-1],M))
    if t in ('double',): return ('f64',)
    m=re.match(r'i(\d+)$',t)
    if m: return ('i',int(m.group(1)))
    m=re.match(r'\[(\d+) x (.+)\]$',t)
    if m: return ('arr',int(m.group(1)),parse_type(m.group(2),M))
    if t.startswith('%'): return M.types[t]() if callable(M.types[t]) else M.types[t]
    if t.startswith('{'):
        inner=t[1:-1].strip(); return ('struct',[parse_type(x,M) for x in split_top(inner)])
    raise NotImplementedError(t)
def split_top(s):
    out=[];d=0;cur=''
    for ch in s:
        if ch in '([{<': d+=1
        if ch in ')]}>': d-=1
        if ch==',' and d==0: out.append(cur.strip());cur=''
        else: cur+=ch
    if cur.strip(): out.append(cur.strip())
    return out
def size_align(t):
    k=t[0]
    if k=='f64' or k=='ptr': return 8,8
    if k=='i': return max(1,t[1]//8),max(1,t[1]//8)
    if k=='arr':
        s,a=size_align(t[2]); return s*t[1],a
    if k=='struct':
        off=0;al=1
        for f in t[1]:
            s,a=size_align(f); off=(off+a-1)//a*a+s; al=max(al,a)
        return (off+al-1)//al*al,al
def field_off(t,i):
    off=0
    for j,f in enumerate(t[1]):
        s,a=size_align(f); off=(off+a-1)//a*a
        if j==i: return off,f
        off+=s
def parse(path):
    M=Mod(); M.types={}; M.fns={}; raw={}
    lines=open(path).read().split('\n')
    for ln in lines:
        m=re.match(r'(%[\w.]+) = type (.+)$',ln)
        if m: raw[m.group(1)]=m.group(2)
    for k,v in raw.items(): M.types[k]=(lambda v=v: parse_type(v,M))
    cur=None
    for ln in lines:
        if ln.startswith('define'):
            m=re.match(r'define [^@]*?(double|void|i32)\s+@([\w.]+)\((.*)\)[^)]*\{',ln)
            cur={'ret':m.group(1),'name':m.group(2),'args':[(a.split()[0],a.split()[-1]) for a in split_top(m.group(3))],'blocks':{},'order':[]}
            M.fns[cur['name']]=cur; bl='entry'; cur['blocks'][bl]=[]; cur['order'].append(bl)
        elif ln.startswith('}'): cur=None
        elif cur is not None:
            m=re.match(r'(\d+|[\w.]+):',ln)
            if m and not ln.startswith(' '): bl='%'+m.group(1); cur['blocks'][bl]=[]; cur['order'].append(bl)
            elif ln.startswith('  '): cur['blocks'][bl].append(ln.strip())
    return M
def rat(x): return z3.RealVal(str(fractions.Fraction(x)))
def const(tok):
    if tok.startswith('0x'): return struct.unpack('>d',bytes.fromhex(tok[2:].rjust(16,'0')))[0]
    return float(tok)
class Ptr:
    def __init__(s,reg,off): s.reg=reg; s.off=off
class Interp:
    def __init__(s,M,decide,stubs): s.M=M; s.decide=decide; s.stubs=stubs; s.mem={}; s.nreg=0; s.steps=0
    def region(s,name,cells):  # cells: dict byteoff->value
        s.mem[name]=dict(cells); return Ptr(name,0)
    def load(s,p):
        off=p.off
        if isinstance(off,int): return s.mem[p.reg][off]
        r=None
        for k,v in sorted(s.mem[p.reg].items(),reverse=True):
            r=v if r is None else z3.If(off==k,v,r)
        return r
    def store(s,p,v):
        assert isinstance(p.off,int),'symbolic store'
        s.mem[p.reg][p.off]=v
    def call(s,fname,args):
        if fname in s.stubs: return s.stubs[fname](*args)
        f=s.M.fns[fname]; env={nm:a for (ty,nm),a in zip(f['args'],args)}
        def val(tok,ty=None):
            tok=tok.strip()
            if tok.startswith('%'): return env[tok]
            if tok in ('true','false'): return tok=='true'
            if ty=='double' or '.' in tok or tok.startswith('0x'): return const(tok)
            return int(tok)
        def num(v): return rat(v) if isinstance(v,float) else v
        def isym(v): return z3.is_expr(v)
        bl='entry'; prev=None
        while True:
            for ln in f['blocks'][bl]:
                s.steps+=1
                if s.steps>200000: raise RuntimeError('step cap')
                m=re.match(r'(%[\w.]+) = phi \S+ (.+)$',ln)
                if m:
                    for v,l in re.findall(r'\[ ([^,]+), (%[\w.]+) \]',m.group(2)):
                        if l==prev or (prev=='entry' and l=='%'+str(len(f['args']))): env['__phi_'+m.group(1)]=val(v,'double' if ' double ' in ln else None)
                    continue
                # commit phis
                for k in [k for k in env if k.startswith('__phi_')]: env[k[6:]]=env.pop(k)
                m=re.match(r'(%[\w.]+) = alloca (.+?), align',ln)
                if m:
                    t=parse_type(m.group(2),s.M); s.nreg+=1; env[m.group(1)]=Ptr('alloca%d'%s.nreg,0); s.mem['alloca%d'%s.nreg]={}; continue
                m=re.match(r'(%[\w.]+) = bitcast \S.*? (%[\w.]+) to ',ln)
                if m: env[m.group(1)]=env[m.group(2)]; continue
                m=re.match(r'(%[\w.]+) = getelementptr (?:inbounds )?(.+?), (.+?\*) (%[\w.]+)((?:, i\d+ [^,]+)*)$',ln)
                if m:
                    t=parse_type(m.group(2),s.M); p=env[m.group(4)]; off=p.off
                    idx=[val(x.split()[-1]) for x in m.group(5).split(',')[1:]]
                    sz,_=size_align(t); off=off+idx[0]*sz
                    for i in idx[1:]:
                        if t[0]=='arr': t=t[2]; off=off+i*size_align(t)[0]
                        elif t[0]=='struct': o,t=field_off(t,i); off=off+o
                    if isym(off): off=z3.simplify(off)
                    env[m.group(1)]=Ptr(p.reg,off); continue
                m=re.match(r'(%[\w.]+) = load \S+, \S+ (%[\w.]+)',ln)
                if m: env[m.group(1)]=s.load(env[m.group(2)]); continue
                m=re.match(r'store (\S+) ([^,]+), \S+ (%[\w.]+)',ln)
                if m: s.store(env[m.group(3)],val(m.group(2),m.group(1))); continue
                m=re.match(r'(%[\w.]+) = (sext|zext|trunc) \S+ (\S+) to',ln)
                if m: env[m.group(1)]=val(m.group(3)); continue
                m=re.match(r'(%[\w.]+) = (add|sub|mul|sdiv|srem)(?: nsw| nuw)* i\d+ ([^,]+), (.+)$',ln)
                if m:
                    a,b=val(m.group(3)),val(m.group(4)); op=m.group(2)
                    if not isym(a) and not isym(b):
                        r={'add':a+b,'sub':a-b,'mul':a*b,'sdiv':int(a/b) if b else 0,'srem':a-b*int(a/b) if b else 0}[op]
                    else:
                        r={'add':lambda:a+b,'sub':lambda:a-b,'mul':lambda:a*b,'sdiv':lambda:a/b,'srem':lambda:a%b}[op]()   # nonneg operands assumed
                    env[m.group(1)]=r; continue
                m=re.match(r'(%[\w.]+) = icmp (\w+) \S+ ([^,]+), (.+)$',ln)
                if m:
                    a,b=val(m.group(3)),val(m.group(4)); op=m.group(2)
                    r={'eq':lambda:a==b,'ne':lambda:a!=b,'slt':lambda:a<b,'sle':lambda:a<=b,'sgt':lambda:a>b,'sge':lambda:a>=b}[op]()
                    env[m.group(1)]=r; continue
                m=re.match(r'(%[\w.]+) = fcmp (\w+) double ([^,]+), (.+)$',ln)
                if m:
                    a,b=num(val(m.group(3),'double')),num(val(m.group(4),'double')); op=m.group(2)[1:]
                    env[m.group(1)]={'gt':lambda:a>b,'lt':lambda:a<b,'ge':lambda:a>=b,'le':lambda:a<=b,'eq':lambda:a==b,'ne':lambda:a!=b}[op](); continue
                m=re.match(r'(%[\w.]+) = (fadd|fsub|fmul|fdiv) double ([^,]+), (.+)$',ln)
                if m:
                    a,b=num(val(m.group(3),'double')),num(val(m.group(4),'double'))
                    env[m.group(1)]=z3.simplify({'fadd':lambda:a+b,'fsub':lambda:a-b,'fmul':lambda:a*b,'fdiv':lambda:a/b}[m.group(2)]()); continue
                m=re.match(r'(?:(%[\w.]+) = )?call (\S+) @([\w.]+)\((.*)\)',ln)
                if m:
                    args=[val(a.split()[-1],a.split()[0]) for a in split_top(m.group(4))]
                    r=s.call(m.group(3),args)
                    if m.group(1): env[m.group(1)]=r
                    continue
                m=re.match(r'br label (%[\w.]+)',ln)
                if m: prev,bl=bl,m.group(1); break
                m=re.match(r'br i1 (\S+), label (%[\w.]+), label (%[\w.]+)',ln)
                if m:
                    c=val(m.group(1))
                    if isym(c): c=s.decide(c)
                    prev,bl=bl,(m.group(2) if c else m.group(3)); break
                m=re.match(r'ret (\S+)(?: (.+))?$',ln)
                if m: return None if m.group(1)=='void' else val(m.group(2),m.group(1))
                raise NotImplementedError(ln)
if __name__=='__main__':
    sys.path.insert(0,'.')
    from symx0 import Explorer
    M=parse('ir/sphere.ll')
    EX=Explorer()
    R=z3.RealSort()
    FV=z3.Function('V',R,R); F1=z3.Function('F1',R,R,R,R,R); F2=z3.Function('F2',R,R,R,R,R); RE=z3.Function('Reff',R,R)
    nq=2; npts=3
    vals=[z3.Real('v%d'%i) for i in range(5)]      # scale,bg,sld,solvent,radius
    xs=[z3.Real('x%d'%i) for i in range(npts)]; ws=[z3.Real('w%d'%i) for i in range(npts)]
    qs=[z3.Real('q%d'%i) for i in range(nq)]; cutoff=z3.Real('cut')
    start,stop=z3.Int('start'),z3.Int('stop')
    def run(start,stop,init):
        def fn():
            I=Interp(M,EX.decide,{})
            def fq(q,p1,p2,sld,sol,r):
                I.store(p1,F1(q,sld,sol,r)); I.store(p2,F2(q,sld,sol,r))
            I.stubs={'form_volume':lambda r:FV(r),'Fq':fq,'radius_effective':lambda m,r:RE(r)}
            # details: pd_par[0]=2, len=npts, offset=0, stride=1, num_eval=npts, num_weights=npts, num_active=1, theta_par=-1
            det=I.region('details',{0:2,4:npts,8:0,12:1,16:npts,20:npts,24:1,28:-1})
            v={i*8:vals[i] for i in range(5)}
            nv=2+3+4+3*2   # NUM_VALUES for sphere incl. magnetic block
            for i in range(5,nv): v[i*8]=z3.Real('m%d'%i)
            for i in range(npts): v[(nv+i)*8]=xs[i]; v[(nv+npts+i)*8]=ws[i]
            val=I.region('values',v); qq=I.region('q',{i*8:qs[i] for i in range(nq)})
            res=I.region('result',dict(init))
            I.call('sphere_Iq',[nq,start,stop,det,val,qq,res,cutoff,0])
            return dict(I.mem['result']),I.steps
        return fn
    t=time.time()
    init={i*8:z3.Real('r%d'%i) for i in range(2*nq+4)}
    paths=EX.run(run(0,npts,init),[cutoff>=0]+[w>=0 for w in ws])
    print('full run paths',len(paths),'time %.2f'%(time.time()-t),'checks',EX.checks)
    bad=0
    for pc,out,_ in paths:
        if isinstance(out,Exception): print('EXC',repr(out)); continue
        res,steps=out
        s=z3.Solver(); s.add(cutoff>=0,*[w>=0 for w in ws],*pc)
        sel=[z3.If(ws[k]>cutoff,ws[k],0) for k in range(npts)]
        spec={}
        for j in range(nq):
            spec[(2*j)*8]=sum(sel[k]*F2(qs[j],vals[2],vals[3],xs[k]) for k in range(npts))
            spec[(2*j+1)*8]=sum(sel[k]*F1(qs[j],vals[2],vals[3],xs[k]) for k in range(npts))
        spec[2*nq*8]=sum(sel); spec[(2*nq+1)*8]=sum(sel[k]*FV(xs[k]) for k in range(npts)); spec[(2*nq+2)*8]=spec[(2*nq+1)*8]; spec[(2*nq+3)*8]=z3.RealVal(0)
        s.add(z3.Or(*[res[o]!=spec[o] for o in spec]))
        r=str(s.check()); bad+= r!='unsat'
    print('spec obligations not unsat:',bad,'steps/path',steps)
    # split independence with symbolic mid
    t=time.time()
    mid=z3.Int('mid')
    def two():
        a,_=run(0,mid,init)()
        b,_=run(mid,npts,a)()
        return b
    p2=EX.run(two,[cutoff>=0,mid>=1,mid<=npts-1]+[w>=0 for w in ws])
    print('split run paths',len(p2),'time %.2f'%(time.time()-t))
    for pc,out,_ in p2:
        if isinstance(out,Exception): print('EXC',repr(out)[:200])
    full={tuple(sorted(str(c) for c in pc)):out for pc,out,_ in paths}
    nbad=0
    for pc,out,_ in p2:
        s=z3.Solver(); s.add(cutoff>=0,mid>=1,mid<=npts-1,*[w>=0 for w in ws],*pc)
        sel=[z3.If(ws[k]>cutoff,ws[k],0) for k in range(npts)]
        spec={(2*j)*8:sum(sel[k]*F2(qs[j],vals[2],vals[3],xs[k]) for k in range(npts)) for j in range(nq)}
        spec[2*nq*8]=sum(sel)
        s.add(z3.Or(*[out[o]!=spec[o] for o in spec])); r=str(s.check()); nbad+= r!='unsat'
        if r!='unsat': print(r, s.model()[mid])
    print('split obligations not unsat:',nbad,'of',len(p2))
