import numpy as np
from sasmodels import core, direct_model
q=np.array([0.01,0.05])
m=core.load_model('sphere*cylinder',dtype='d',platform='dll'); k=m.make_kernel([q])
print([p.name for p in m.info.parameters.kernel_parameters])
print('A zero:', direct_model.call_kernel(k,dict(A_sld=1.0,A_sld_solvent=1.0,background=0)))
mc=core.load_model('cylinder',dtype='d',platform='dll'); kc=mc.make_kernel([q])
print('cyl alone', direct_model.call_kernel(kc,dict(background=0)))
d=dict(radius_effective_mode=2, radius=30.)
k=mc.make_kernel([q]); direct_model.call_Fq(k,d); print('dict after call_Fq', d)
