import z3, time, re, sys
import re._parser as sp
from re._constants import *
from sasmodels import generate

DIG=z3.Range('0','9')
WORD=z3.Union(z3.Range('a','z'),z3.Range('A','Z'),z3.Range('0','9'),z3.Re('_'))
def cat(items):
    def one(op,av):
        if op is LITERAL: return z3.Re(chr(av))
        if op is IN:
            alts=[]
            for o,a in av:
                if o is LITERAL: alts.append(z3.Re(chr(a)))
                elif o is RANGE: alts.append(z3.Range(chr(a[0]),chr(a[1])))
                elif o is CATEGORY:
                    alts.append({CATEGORY_DIGIT:DIG,CATEGORY_WORD:WORD}[a])
                else: raise NotImplementedError(o)
            return alts[0] if len(alts)==1 else z3.Union(*alts)
        if op is BRANCH: 
            alts=[seq(b) for b in av[1]]; return z3.Union(*alts)
        if op is SUBPATTERN: return seq(av[3])
        if op is MAX_REPEAT:
            lo,hi,body=av; r=seq(body)
            if hi is MAXREPEAT:
                return z3.Star(r) if lo==0 else z3.Plus(r) if lo==1 else None
            if (lo,hi)==(0,1): return z3.Option(r)
            return z3.Loop(r,lo,hi)
        raise NotImplementedError(op)
    def seq(items):
        rs=[one(o,a) for o,a in items if o not in (ASSERT_NOT,ASSERT)]
        return rs[0] if len(rs)==1 else z3.Concat(*rs)
    return seq(items)
tree=sp.parse(generate.FLOAT_RE.pattern, generate.FLOAT_RE.flags)
core=cat(list(tree))   # lookarounds dropped: handled via context
# reference: C99 decimal floating constant without suffix
ds=z3.Plus(DIG); exp_=z3.Concat(z3.Union(z3.Re('e'),z3.Re('E')),z3.Option(z3.Union(z3.Re('+'),z3.Re('-'))),ds)
frac=z3.Union(z3.Concat(z3.Option(ds),z3.Re('.'),ds), z3.Concat(ds,z3.Re('.')))
cfloat=z3.Union(z3.Concat(frac,z3.Option(exp_)), z3.Concat(ds,exp_))
m=z3.String('m')
def q(name,*cons,timeout=60000):
    s=z3.Solver(); s.set('timeout',timeout); s.add(*cons); t=time.time(); r=s.check()
    print(name,r,round(time.time()-t,2), s.model()[m] if str(r)=='sat' else '')
q('impl⊆C',  z3.InRe(m,core), z3.Not(z3.InRe(m,cfloat)))
q('C⊆impl',  z3.InRe(m,cfloat), z3.Not(z3.InRe(m,core)))
lead0=z3.Concat(z3.Re('0'),DIG,z3.Full(z3.ReSort(z3.StringSort())))
q('C⊆impl minus leading-zero', z3.InRe(m,cfloat), z3.Not(z3.InRe(m,core)), z3.Not(z3.InRe(m,lead0)))
# context: any occurrence pre+m+post with lookbehind/ahead satisfied must not be inside identifier/pp-number
pre,post=z3.String('pre'),z3.String('post')
notw=lambda c: z3.Not(z3.InRe(c,WORD))
lastpre=z3.SubString(pre,z3.Length(pre)-1,1); firstpost=z3.SubString(post,0,1)
ctx=[z3.InRe(m,core), z3.Or(z3.Length(pre)==0, notw(lastpre)), z3.Or(z3.Length(post)==0, notw(firstpost)), z3.Length(pre)<=3, z3.Length(post)<=3]
# claim: char before is not '.' or word (i.e. m starts a pp-number) -- expect sat with '.' before
q('ctx: preceded by dot', *ctx, lastpre==z3.StringVal('.'))
q('ctx: followed by dot', *ctx, firstpost==z3.StringVal('.'))
