"""Throw-away prototype: homogeneity-degree typing of model IR (C13 feasibility probe)."""
import re, sys, z3, itertools, collections
from sasmodels import core

UNIT={'Ang':(1,0),'Ang^2':(2,0),'Ang^3':(3,0),'1/Ang':(-1,0),'1/Ang^2':(-2,0),'':(0,0),'degrees':(0,0),'None':(0,0),'1e-6/Ang^2':(0,1)}
DIMLESS_FUNCS={'sin','cos','tan','asin','acos','atan','sinh','cosh','tanh','exp','expm1','log','log10','log1p','erf','erfc','tgamma','lgamma',
 'sas_J0','sas_J1','sas_JN','sas_J1c','sas_2J1x_x','sas_3j1x_x','sas_sinx_x','sas_Si','sas_gamma','sas_gammaln','sas_gammainc','sas_erf','sas_erfc','sincos'}
SAME_FUNCS={'fabs','llvm.fabs.f64','floor','ceil','trunc','round'}

class Fn: pass
def parse(path):
    fns={}; cur=None
    for line in open(path):
        if line.startswith('define'):
            m=re.match(r'define [^@]*?(double|void|i32|float)\s+@([\w.]+)\((.*)\)[^)]*\{',line)
            cur=Fn(); cur.ret=m.group(1); cur.name=m.group(2); cur.body=[]
            args=[]
            for a in split_args(m.group(3)):
                a=a.strip()
                if not a: continue
                ty=a.split()[0]; nm=a.split()[-1]
                args.append((ty,nm))
            cur.args=args; fns[cur.name]=cur
        elif line.startswith('}'): cur=None
        elif cur is not None and line.startswith('  '): cur.body.append(line.strip())
    return fns
def split_args(s):
    out=[];d=0;cur=''
    for ch in s:
        if ch in '([{<': d+=1
        if ch in ')]}>': d-=1
        if ch==',' and d==0: out.append(cur);cur=''
        else: cur+=ch
    if cur.strip(): out.append(cur)
    return out

class Typing:
    def __init__(s,fns):
        s.fns=fns; s.sol=z3.Solver(); s.n=0; s.track={}
    def fresh(s,tag):
        s.n+=1; return (z3.Real('L%d'%s.n), z3.Real('M%d'%s.n))
    def eq(s,a,b,why):
        if a is None or b is None: return
        p=z3.Bool('c%d'%len(s.track)); s.track[str(p)]=why
        s.sol.assert_and_track(z3.And(a[0]==b[0],a[1]==b[1]),p)
    def lin(s,r,a,b,sign,why):   # r = a + sign*b
        p=z3.Bool('c%d'%len(s.track)); s.track[str(p)]=why
        s.sol.assert_and_track(z3.And(r[0]==a[0]+sign*b[0], r[1]==a[1]+sign*b[1]),p)
    def scale(s,r,a,k,why):
        p=z3.Bool('c%d'%len(s.track)); s.track[str(p)]=why
        s.sol.assert_and_track(z3.And(r[0]==k*a[0], r[1]==k*a[1]),p)
    ZERO=(z3.RealVal(0),z3.RealVal(0))
    def inst(s,fname,argdeg,depth=0,ctx=''):
        """instantiate function; argdeg: list of degree pairs or None (ints); returns ret degree"""
        f=s.fns[fname]; env={}
        for (ty,nm),d in zip(f.args,argdeg):
            env[nm]=d
        ret=s.fresh('ret') if f.ret=='double' else None
        def val(tok,ty='double'):
            tok=tok.strip()
            if tok.startswith('%'):
                if tok not in env: env[tok]=s.fresh(tok)
                return env[tok]
            if tok.startswith('@'):  # global table
                return s.ZERO
            if tok in ('null','undef','true','false') : return None
            try:
                v=float.fromhex(tok) if tok.startswith('0x') and len(tok)<10 else None
            except: v=None
            if re.match(r'^-?0(\.0+)?(e[+-]?0+)?$',tok) or tok=='0x0000000000000000' or tok=='-0.000000e+00': return None   # literal zero: free
            return s.ZERO
        for ln in f.body:
            why='%s%s: %s'%(ctx,fname,ln[:90])
            m=re.match(r'(%[\w.]+) = (fadd|fsub|fmul|fdiv|frem) double ([^,]+), (.+)$',ln)
            if m:
                r=val(m.group(1)); a=val(m.group(3)); b=val(m.group(4)); op=m.group(2)
                if op in ('fadd','fsub','frem'):
                    if a is not None: s.eq(r,a,why)
                    if b is not None: s.eq(r,b,why)
                elif op=='fmul':
                    if a is None or b is None: pass
                    else: s.lin(r,a,b,1,why)
                else:
                    if a is None: pass
                    elif b is None: pass
                    else: s.lin(r,a,b,-1,why)
                continue
            m=re.match(r'(%[\w.]+) = fneg double (.+)$',ln)
            if m: s.eq(val(m.group(1)),val(m.group(2)),why); continue
            m=re.match(r'(%[\w.]+) = phi (double\**|\[[^\]]*\]\**|%[\w.]+\**) (\[ .+)$',ln)
            if m:
                r=val(m.group(1))
                for a,_ in re.findall(r'\[ ([^,]+), (%[\w.]+) \]',m.group(3)):
                    s.eq(r,val(a),why)
                continue
            m=re.match(r'(%[\w.]+) = select i1 [^,]+, double\*? ([^,]+), double\*? (.+)$',ln)
            if m:
                r=val(m.group(1)); s.eq(r,val(m.group(2)),why); s.eq(r,val(m.group(3)),why); continue
            m=re.match(r'(%[\w.]+) = fcmp \w+ double ([^,]+), (.+)$',ln)
            if m:
                a=val(m.group(2)); b=val(m.group(3))
                if a is not None and b is not None: s.eq(a,b,why)
                continue
            m=re.match(r'(%[\w.]+) = load double, double\* ([%@][\w.]+)',ln)
            if m: s.eq(val(m.group(1)),val(m.group(2)),why); continue
            m=re.match(r'(%[\w.]+) = load double\*, double\*\* ([%@][\w.]+)',ln)
            if m: s.eq(val(m.group(1)),val(m.group(2)),why); continue
            m=re.match(r'store double\* ([%@][\w.]+), double\*\* ([%@][\w.]+)',ln)
            if m: s.eq(val(m.group(1)),val(m.group(2)),why); continue
            m=re.match(r'store double ([^,]+), double\* ([^,]+)',ln)
            if m:
                v=val(m.group(1))
                if v is not None: s.eq(v,val(m.group(2)),why)
                continue
            m=re.match(r'(%[\w.]+) = getelementptr (?:inbounds )?([^,]+), ([^,]+\*) ([%@][\w.]+)',ln)
            if m:
                base=m.group(4)
                if 'double' in m.group(3) or '%struct' in m.group(3) or '%union' in m.group(3):
                    s.eq(val(m.group(1)),val(base),why)
                continue
            m=re.match(r'(%[\w.]+) = bitcast (.+?\*) (%[\w.]+) to (.+)$',ln)
            if m:
                if 'double' in m.group(2)+m.group(4): s.eq(val(m.group(1)),val(m.group(3)),why)
                continue
            m=re.match(r'(%[\w.]+) = alloca ',ln)
            if m: val(m.group(1)); continue
            m=re.match(r'(%[\w.]+) = sitofp ',ln)
            if m: s.eq(val(m.group(1)),s.ZERO,why); continue
            m=re.match(r'(%[\w.]+) = fptosi double (.+) to',ln)
            if m:
                a=val(m.group(2))
                if a is not None: s.eq(a,s.ZERO,why)
                continue
            m=re.match(r'(?:(%[\w.]+) = )?call (?:fastcc )?(double|void|i32) @([\w.]+)\((.*)\)',ln)
            if m:
                res,rty,callee,args=m.groups()
                al=[]
                for a in split_args(args):
                    a=a.strip(); ty=a.split()[0]; tok=a.split()[-1]
                    al.append((ty,tok))
                degs=[val(tok) if ty.startswith('double') or ty.startswith('[') or ty.startswith('%') else None for ty,tok in al]
                if callee.startswith('llvm.memcpy') or callee.startswith('llvm.lifetime') : continue
                r=val(res) if res and rty=='double' else None
                if callee in DIMLESS_FUNCS:
                    for d,(ty,tok) in zip(degs,al):
                        if d is not None and ty=='double': s.eq(d,s.ZERO,why)
                    if r is not None: s.eq(r,s.ZERO,why)
                elif callee in s.fns and depth<12:
                    # literal-zero args get fresh free degree
                    degs2=[d if (d is not None or not ty.startswith('double')) else s.fresh('z') for d,(ty,tok) in zip(degs,al)]
                    rr=s.inst(callee,degs2,depth+1,ctx+fname+'>')
                    if r is not None: s.eq(r,rr,why)
                elif callee in DIMLESS_FUNCS:
                    for d,(ty,tok) in zip(degs,al):
                        if d is not None and ty=='double': s.eq(d,s.ZERO,why)
                    if r is not None: s.eq(r,s.ZERO,why)
                elif callee in SAME_FUNCS:
                    if r is not None and degs[0] is not None: s.eq(r,degs[0],why)
                elif callee=='sqrt':
                    if degs[0] is not None: s.scale(degs[0],r,2,why)
                elif callee=='cbrt':
                    if degs[0] is not None: s.scale(degs[0],r,3,why)
                elif callee in ('llvm.minnum.f64','llvm.maxnum.f64','fmin','fmax','fmod','hypot','copysign'):
                    for d in degs[:1 if callee=='copysign' else 2]:
                        if d is not None: s.eq(r,d,why)
                elif callee=='pow':
                    tok=al[1][1]
                    try: k=float(tok); 
                    except: k=None
                    if k is not None and degs[0] is not None: 
                        import fractions; s.scale(r,degs[0],z3.RealVal(str(fractions.Fraction(k).limit_denominator(1000))),why)
                    else:
                        if degs[0] is not None: s.eq(degs[0],s.ZERO,why)
                        if degs[1] is not None: s.eq(degs[1],s.ZERO,why)
                        s.eq(r,s.ZERO,why)
                elif callee=='atan2':
                    if degs[0] is not None and degs[1] is not None: s.eq(degs[0],degs[1],why)
                    s.eq(r,s.ZERO,why)
                else:
                    print('  unknown callee',callee)
                continue
            m=re.match(r'ret double (.+)$',ln)
            if m:
                v=val(m.group(1))
                if v is not None: s.eq(ret,v,why)
                continue
        return ret

def check(name):
    info=core.load_model_info(name)
    fns=parse('ir/%s.ll'%name)
    T=Typing(fns)
    def deg(p):
        if p.type=='sld': return (z3.RealVal(0),z3.RealVal(1))
        if p.units not in UNIT: raise KeyError(p.units)
        l,m=UNIT[p.units]; return (z3.RealVal(l),z3.RealVal(m))
    pt=info.parameters
    q=(z3.RealVal(-1),z3.RealVal(0))
    out={}
    vol=[deg(p) for p in pt.form_volume_parameters]
    iq=[deg(p) for p in pt.iq_parameters]
    if 'form_volume' in fns and vol: out['form_volume']=(T.inst('form_volume',vol),(3,0))
    if 'shell_volume' in fns and vol: out['shell_volume']=(T.inst('shell_volume',vol),(3,0))
    if 'radius_effective' in fns and vol: out['radius_effective']=(T.inst('radius_effective',[None]+vol),(1,0))
    if info.have_Fq:
        F1=T.fresh('F1'); F2=T.fresh('F2')
        T.inst('Fq',[q,F1,F2]+iq); out['F1']=(F1,(3,1)); out['F2']=(F2,(6,2))
    elif 'Iq' in fns:
        out['Iq']=(T.inst('Iq',[q]+iq),(6,2))
    if 'Iqac' in fns: out['Iqac']=(T.inst('Iqac',[q,q]+iq),(6,2))
    if 'Iqabc' in fns: out['Iqabc']=(T.inst('Iqabc',[q,q,q]+iq),(6,2))
    r=T.sol.check()
    if str(r)!='sat':
        core_=[T.track[str(c)] for c in T.sol.unsat_core()]
        return name,'UNTYPABLE',core_[:6]
    m=T.sol.model(); res=[]
    # forced degrees?
    bad=[]
    for k,(d,(el,em)) in out.items():
        T.sol.push(); T.sol.add(z3.Or(d[0]!=el,d[1]!=em)); rr=T.sol.check(); 
        if str(rr)=='sat':
            mm=T.sol.model(); bad.append((k,str(mm.eval(d[0])),str(mm.eval(d[1])),'expected',el,em))
        T.sol.pop()
    if not vol:  # no volume normalisation: Iq itself is intensity, expected degree differs
        return name,('NOVOL',bad)
    return name,('OK' if not bad else 'WRONGDEG'),bad
if __name__=='__main__':
    for n in sys.argv[1:]:
        try: print(*check(n))
        except KeyError as e: print(n,'skip unit',e)
        except Exception as e:
            import traceback; traceback.print_exc(); print(n,'ERR',e)
