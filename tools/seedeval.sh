#!/bin/sh
# tools/seedeval.sh <PROPERTY> <n> [check args...]: confirm a seeded change and run the check on it
P=$1; N=$2; shift; shift
SRC=/tmp/seedout-$P-$N
WT=/tmp/wt-seed-$P-$N
git -C /repo worktree remove --force $WT 2>/dev/null
git -C /repo worktree add -q --detach $WT HEAD || exit 9
echo "== demo on clean tree:"; /venv/bin/python $SRC/demo.py $WT >/dev/null 2>&1; echo "exit $?"
git -C $WT apply $SRC/patch.diff || { echo "patch does not apply to HEAD"; git -C /repo worktree remove --force $WT; exit 8; }
echo "== demo on patched tree:"; /venv/bin/python $SRC/demo.py $WT >/dev/null 2>&1; echo "exit $?"
echo "== test suite on patched tree:"; (cd $WT && /venv/bin/python -m pytest -q -p no:cacheprovider --timeout=900 2>&1 | tail -n 1)
echo "== check on patched tree:"; (cd /verif && VERIF_REPO=$WT ./check $P "$@" 2>&1 | grep -v "^  key\|HARNESS-ERROR" | tail -n 4 | cut -c1-260; )
git -C /repo worktree remove --force $WT
