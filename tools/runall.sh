#!/bin/sh
# tools/runall.sh [quick|thorough] [IDs...]: run the registered checks one after the other, print one line each
TIER=${1:-quick}; shift 2>/dev/null
cd "$(dirname "$0")/.."
IDS="$@"
[ -z "$IDS" ] && IDS=$(/venv/bin/python -c "import json; print(' '.join(c['property_id'] for c in json.load(open('MANIFEST.json'))['checks']))")
for id in $IDS; do
  s=$(date +%s)
  ./check $id --tier $TIER > /tmp/runall-$id.log 2>&1
  rc=$?
  echo "$id exit=$rc wall=$(( $(date +%s)-s ))s $(grep -v '^KNOWN\|^HARNESS\|^  ' /tmp/runall-$id.log | tail -n 1 | cut -c1-170)"
done
