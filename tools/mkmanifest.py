#!/venv/bin/python
"""Regenerates MANIFEST.json from the table below and validates it."""
import json, os, sys
ROOT = os.path.dirname(os.path.dirname(os.path.abspath(__file__)))
sys.path.insert(0, os.path.join(ROOT, ".deps"))

COMMON_NOTE = ("Trusted: z3 (cvc5 cross-check where stated), the vlib proxy layer/explorer and IR interpreter "
               "(validated against real-code float runs on every run), doubles modelled as reals, libm/special "
               "functions as uninterpreted functions with instantiated axioms. Bounded: see evidence.coverage.bounds; "
               "nothing is claimed outside the bounds. Counterexamples are replayed on the real code before being reported.")

CHECKS = {
 "C02": dict(
    text="Bounded symbolic execution of the real weights.get_weights/_weights code on z3 proxies: for every "
         "distribution type, point count within the bound and relative/absolute mode, with centre, width, nsigmas "
         "and both limits symbolic, z3 shows on every path that values are increasing, inside limits and support, "
         "exactly the reference grid points inside the limits, weights >= 0, sum to 1 and are proportional to the "
         "documented density. Right level: the property is a forall over five reals, which the solver covers entirely "
         "inside the npts bound; rounding is outside.",
    design="3/C02", technique="symbolic execution of real Python on z3 proxy values (own explorer) + z3 QF_UFNRA obligations"),
 "C01": dict(
    text="Symbolic execution of the real Python driver (make_kernel_args/make_details, DllModel.make_kernel, DllKernel._call_kernel "
         "chunk loop, Kernel.Fq/Iq) on z3 proxies composed with symbolic execution of the LLVM IR of every compiled model's real "
         "generated kernel source (kernel_iq.c template + model), regenerated on each run. Leaf functions (Iq/Fq/volumes/R_eff) are "
         "uninterpreted, every value, distribution point, weight, q, the cutoff and the initial result buffer are symbolic. z3 shows "
         "per path that the accumulators, I(q) and the Fq outputs equal the documented weighted mean over the full mesh (gates, "
         "one-point and empty distributions included); split points of the mesh across kernel calls are symbolic integers. Right "
         "level: the property is about routing/indexing/normalisation for all data values, which the solver covers inside the "
         "mesh-size bounds; leaf numerics and rounding are outside.",
    design="3/C01", engine="symx+llsym",
    technique="symbolic execution of real Python (z3 proxies) + symbolic execution of clang LLVM IR of the generated C kernels; z3 QF_UFNRA obligations; replay on the real DLL"),
 "C20": dict(
    text="Bounded symbolic execution of the real convert.convert_model for every entry of both conversion tables, five model_version "
         "tuples and both use_underscore values. Values/attributes/strings are z3 proxies, the key set is chosen by symbolic integers "
         "over a bounded family of presence patterns. Per path z3 shows: no exception, returned name = current model id, every returned "
         "key exists in the current ModelInfo, every old value arrives at the key the table maps it to (x1e6 for SLDs; inverse formulas for "
         "hand-converted models), defaults. Right level: forall over values is covered entirely and over key subsets inside the stated family.",
    design="3/C20",
    technique="symbolic execution of real Python on z3 proxy values in plain dicts (own explorer; presence patterns by solver-decided forks); z3 obligations; replay on real code; CrossHair as second engine in thorough",
    note="Trusted: z3; the symx explorer; the Spec class in props/c20.py (table read as data, ModelInfo, inverse formulas transcribed from convert.py/revert_pars); reals for doubles; sqrt axioms (teubner_strey only). The table itself is the specification of name pairing. Outside: presence patterns/insertion orders beyond the bounded family, attributes without their value, .std of SLDs, rpa La..Ld, spherical_sld n_shells, limits/widths of hand-converted quantities, 4.x sets with current model names. Known findings are listed in known_findings.json."),
 "C15": dict(
    text="For every well-formed ASCII token sequence without string literals or comments (segment lengths unbounded), each match of the leftmost "
         "scan by the live FLOAT_RE / keyword / TGMATH_INT_RE patterns is exactly an unsuffixed decimal floating constant / the double of a double, "
         "doubleN or cdouble(N) token / FN([sign]INT before , or ). Every such floating constant and keyword token is matched, and the replacement "
         "templates re-emit all other text; exact for the first K<=2 (quick) or 3 (thorough) matches, and for every later match not run across by a "
         "candidate match. Separately, concretely: token streams of all 61 C models x {F32,F64,F128} equal the reference conversion, and parse_dtype "
         "returns the documented dtype for 5040 request x platform configurations.",
    design="2.3, 3/C15", engine="rx2smt",
    technique="re._parser parse trees of the patterns captured from a traced convert_type call translated node by node to z3 regex terms (vlib/rx2smt); source = one symbolic z3 string with boundary markers so re.sub's leftmost non-overlapping scan and a C99 reference lexer (vlib/clex) are regular constraints; each obligation one unsat regex-membership query; sat models replayed through the real convert_type/re",
    note="The translator is validated against Python re on every distinct line of all model sources and on test_tag_float (0 mismatches). Comments, literal escapes, ill-formed pp-numbers, completeness of the integer promotion and numerical agreement of the built kernels are outside the claim. Known findings: hex floats untagged, text inside string literals rewritten. Trusted: z3 sequence/regex theory, vlib/rx2smt, vlib/clex (C99 6.4 transcription)."),
 "C17": dict(
    text="Bounded symbolic execution of the real load path (core.load_model -> custom.load_custom_kernel_module/need_reload -> make_source/load_template -> "
         "make_dll/dll_name -> _load_dll) on a virtual filesystem. The edit/load/restart history (<=4 ops quick; <=5 with both templates, <=6 with one, thorough) "
         "is a vector of symbolic integers and every modification time is a symbolic real under a non-decreasing-clock model that allows ties. z3 decides every "
         "mtime comparison of the real code. On every feasible path each load serves module, source and library of the current texts and precision, no two "
         "(source, precision) share a library path, and reverting restores the earlier library. Right level: the bugs live in mtime orderings and op orderings, "
         "which the solver covers entirely inside the bound; text content is a 3-version pool so the real CRC runs.",
    design="3/C17", engine="symx+vfs",
    technique="symx explorer over symbolic histories and mtimes on vlib.vfs (virtual filesystem, scripted compiler, virtual dlopen), z3 QF_LIRA fork feasibility; thorough: QF_BV lemmas and collision search on CRC-32; counterexamples replayed on the real filesystem with os.utime, real worker processes and the real compiler",
    note="Trusted: z3, the symx explorer, vlib.vfs (validated every run: the generated source equals the unstubbed run on real files), the new-process model (module-level containers restored). Bounded by history length, one plugin with one included C file, two precisions; .pyc caching, backwards or future mtimes, CRC collisions (known finding C17/crc32-tag-collision, thorough tier) and concurrency are outside."),
 "C18": dict(
    text="The real load_dll/make_dll/compile_model/_load_dll run in N scheduler-controlled threads on a shared virtual cache directory (atomic rename, two-half "
         "scripted compiler, dlopen of complete files only). The process resumed at every operation visible to others and the yield at which a process is killed "
         "are symbolic integers. z3 decides feasible alternatives (ranges, preemption bound) and the explorer enumerates all interleavings for N=2 (N=3 in thorough), "
         "preemption-bounded for larger N, with every yield as a kill point. On every interleaving all live processes hold a complete correct library without "
         "exception, no malformed file stays under the final name, and a later fresh load succeeds. Right level: the property quantifies over schedules and kill "
         "points, which are exactly the solver-enumerated variables; the model is re-validated against a real gated process on every run.",
    design="3/C18", engine="symx+sched",
    technique="symx explorer as solver-driven schedule and crash enumerator (vlib.sched: hand-over-hand threads, symbolic choice and kill integers, preemption bound as a z3 constraint, checked partial-order reduction) over vlib.vfs; replay with real processes gated by a profile hook, a FIFO-gated compiler wrapper and kill -9",
    note="Trusted: z3, the symx explorer, vlib.sched and vlib.vfs (the operation sequences of real first and cached loads equal the model's on every run), the kill model (no filesystem effects after the kill, compiler dies with the process), linker = unlink+create. Bounded by N<=3 quick / <=4 thorough, one kill per run, two-half compiler; Windows and network filesystem semantics and write buffering are outside. A truncated exploration is exit 2, never success."),
 "C07": dict(
    text="Bounded symbolic execution of the real P@S composition code (load_model_info, make_product_info, build_model, ProductKernel.__init__/Iq/results, "
         "make_kernel_args, Kernel.Fq/Iq) on z3 proxies, with P and S as recording stub kernels. For every builtin (P,S) pair, effective-radius mode, beta mode, "
         "1-D/2-D and dispersed-parameter choice within the bounds, with the whole value vector symbolic, z3 shows that P and S receive exactly what "
         "make_kernel_args builds for them alone, that the documented formula holds, and that results() reports the quantities used. The slice arithmetic is "
         "additionally proved for symbolic parameter counts.",
    design="3/C07",
    technique="symbolic execution of real Python on z3 proxy values with recording stub leaf kernels; QF_NRA/UF obligations discharged by z3; counterexamples replayed on the compiled kernels",
    note="Leaf kernels are abstract (their accumulators are symbols). Mesh lengths <= 3, two q points, at most two dispersed parameters and two symbolic magnetisations at a time. 2-D beta is refused by the code and is outside the claim. Doubles modelled as reals. Trusted: z3, symx, vlib/compose.py. One known finding (results() radius_effective in mode 0; pinned by the repository's own test)."),
 "C08": dict(
    text="Bounded symbolic execution of the real mixture code (expression parsing, make_mixture_info, build_model, MixtureKernel.Iq, _MixtureParts, the product code "
         "for P@S parts, make_kernel_args, Kernel.Iq) on z3 proxies with recording stub leaves. For every enumerated expression, with all values, weights and leaf "
         "intensities symbolic (exact zeros included), z3 shows that each leaf is handed exactly what it is handed when its component runs alone from the prefixed "
         "parameters, that total = scale*sum X_k*I_k + bg or scale*prod I_k + bg, and that swapping a 2-part expression changes nothing.",
    design="3/C08",
    technique="symbolic execution of real Python on z3 proxy values with recording stub leaf kernels; obligations in ring normal form discharged by z3; counterexamples, including solver-proposed exact zeros, replayed on the compiled kernels",
    note="Leaves abstract; one dispersed parameter per component (length 2 or 3), two q points, at most two symbolic magnetisations. Leaves that cannot be driven to zero by any known input are assumed non-zero. Parenthesised expressions do not exist in the parser; results() of mixtures is not part of the statement. One known finding (IndexError for a nested parameterless component)."),
 "C19": dict(
    text="For every spin-echo grid of 1-4 positive increasing lengths, any wavelengths, any acceptance angle in (0, pi/2] and any kernel output, the value returned for "
         "SESANS data equals (1/2pi) sum_k [m_kj J0(q_k xi_j) - 1] I_k q_k dq_k, with dq_k the code's interval widths and m_kj the documented acceptance mask "
         "q_k <= 2 pi sin(theta_max)/lambda. The data path from empty_sesans through _calc_theory is included. The value is linear in I, no background is added, the "
         "kernel is evaluated on q_calc, and q_calc is positive and strictly increasing. Proved for q grids of at most 8 points (quick) or 12 (thorough), obtained by "
         "enlarging the code's log spacing.",
    design="3/C19",
    technique="bounded symbolic execution of the real Python on z3 proxies (mask kept symbolic as if-then-else, NaN tracked, grid length forked); J0/exp/log/sin/asin uninterpreted with instantiated true facts; nlsat on a UF-abstracted weakening first, then full SMT, with counterexample-guided refinement of sin/asin; sat models replayed on the real float code with scipy j0",
    note="Doubles are reals. The code's log spacing 1.0003 is replaced by 1.5-4 to bound the grid; the code is uniform in grid length. The quadrature-accuracy clauses (Gaussian pair, 10% single point) are outside the solver claim and only reported as concrete runs. Units other than A/radians need sasdata (absent). The reading 'mask also on the -G(0) term' is not demanded."),
 "C05": dict(
    text="For each of the 21 oriented models the real Python driver runs on z3 proxies and the LLVM IR of the model's real generated <model>_Iqxy kernel "
         "(the template's orientation/jitter code) is executed symbolically with view angles, jitter meshes, weights, a size distribution and (qx,qy) symbolic. "
         "The arguments reaching the uninterpreted Iqac/Iqabc are proved equal to R^-1(qx,qy,0) for the documented R = Rz(phi)Ry(theta)Rz(psi)Rx(dphi)Ry(dtheta)Rz(dpsi) "
         "(qc and qab^2 = qa^2+qb^2 for symmetric shapes) by solver lemmas under sin^2+cos^2=1, and the accumulators equal sum prod(w)|cos dtheta| I(...). The real "
         "get_mesh runs on proxies for the 1-D clause (orientation parameters inactive) and the jitter-centred-on-zero clause. Right level: a sign/order error in any "
         "rotation entry or a lost |cos| is a polynomial disequality the solver finds for all angles at once; the invariance consequences follow on paper.",
    design="3/C05", engine="symx+llsym",
    technique="symbolic execution of clang LLVM IR of the generated 2-D kernels under the real Python driver on z3 proxies; layered congruence lemmas (QF_NRA with circle axioms, UF applications abstracted) + accumulator obligations; counterexamples replayed on the real DLL against the model's own Iqac/Iqabc evaluated at independently rotated q"),
 "C06": dict(
    text="For every magnetic-capable compiled model the real Python driver runs on z3 proxies (the real convert_magnetism converts the polar angles and decides the "
         "kernel by forking on the symbolic magnitudes) and the LLVM IR of the real generated <model>_Imagnetic kernel (set_spin_weights, mag_sld, the cross-section "
         "loop) is executed symbolically with polarisation parameters, magnetisation of one or more SLDs, all other parameters and (qx,qy) symbolic. Per path z3 shows "
         "that the result is w_dd I(rho-P.Mperp) + w_uu I(rho+P.Mperp) + w_du[I(e1.Mperp)+I(-e2.Mperp)] + w_ud[I(e1.Mperp)+I(e2.Mperp)] with Mperp = M - qhat(qhat.M), "
         "(P,e1,e2) from the polar angles and the documented clipped/normalised weights; all magnitudes zero selects the ordinary kernel; also under a size or jitter "
         "distribution. Right level: channel weights/signs/axes are polynomial identities in symbolic inputs which the solver covers for all values.",
    design="3/C06", engine="symx+llsym",
    technique="symbolic execution of clang LLVM IR of the generated magnetic kernels under the real Python driver on z3 proxies; argument-alignment lemmas (QF_NRA, UF abstracted, circle/sqrt axioms) + accumulator obligations; counterexamples replayed on the real DLL against the documented channel formula evaluated with the real non-magnetic kernel"),
 "C16": dict(
    text="A fixed family of reparameterisations (affine and power-law maps, intermediate variables, insert_after placements; oriented, hollow and "
         "validity-constrained base models) is built by the real core.reparameterize; the generated kernel source (TRANSLATION_VARS, VALID, CALL_* macros "
         "inside the real dispersity loop) is compiled to LLVM IR and executed symbolically under the real Python driver on z3 proxies, with new-parameter "
         "values, meshes over new parameters, q and cutoff symbolic and the base model's leaf functions uninterpreted. z3 shows that the accumulators and "
         "outputs equal the base leaves applied to translate(x) -- the translation text compiled as a plain C function independently of generate.py -- gated by "
         "the base validity predicate at translate(x) and volume-normalised over the mesh; untouched parameters keep name/order/limits. Right level: "
         "substitution/prefixing/validity errors are term disequalities found for all parameter values; arbitrary translations outside the family are not covered.",
    design="3/C16", engine="symx+llsym",
    technique="symbolic execution of clang LLVM IR of the generated derived-model kernels under the real Python driver on z3 proxies; reference translation = the translation text as plain C executed by the same IR interpreter; z3 QF_UFNRA obligations; replay on the real DLLs of derived and base model"),
 "C09": dict(
    text="A fixed family of generated plugin definitions (1..8 parameters of every type, a vector parameter with control parameter, optional shell_volume, "
         "effective-radius modes, validity predicate) is instantiated through the real make_model_info twice: with C leaves (real make_source -> LLVM IR -> symbolic "
         "interpreter under the real DllKernel driver) and with Python leaves (real PyModel/PyKernel/_loops on z3 proxies); the leaves are the same uninterpreted "
         "functions in both builds. With every parameter, mesh value/weight, cutoff and q symbolic z3 shows per path that the Python accumulators equal the documented "
         "weighted sums, equal the C accumulators, and that the Kernel.Fq outputs coincide. parse_parameter on symbolic limits/default and enumerated ill-formed tables "
         "(angle order/type/position, duplicates, 2-D function inconsistent with the table) must be refused. Right level: the drift between the Python loop and the C "
         "template is a term disequality for all data values; arbitrary leaf formulas are deliberately abstracted.",
    design="3/C09", engine="symx+llsym",
    technique="symbolic execution of the real kernelpy loop on z3 proxies and of the clang LLVM IR of the generated C kernel for the same definition; z3 QF_UFNRA equality obligations; replay with concrete leaf formulas through the real PyKernel and the real DLL"),
 "C13": dict(
    text="For the shape:* C models whose parameters carry only table units, the leaf functions are proved, for all q and all parameter values, to be homogeneous "
         "with exactly the degrees their declared unit strings imply (I-bg ~ lambda^3 mu^2, V ~ lambda^3, R_eff ~ lambda, F/V ~ mu), with arguments bound to table "
         "slots as the real generated dispatch code binds them: a homogeneity-degree typing over the LLVM IR solved by z3. Models that fail the typing are decided by a "
         "replayed numeric witness on the compiled DLL (violation) or excluded by name as undecided (onion). Right level: a wrong unit label, swapped arguments of "
         "different dimension or a dropped factor makes the constraint system unsat for all inputs at once; typing is an unbounded-in-inputs argument under the stated rule table.",
    design="3/C13", engine="hdeg",
    technique="homogeneity-degree constraint system (two rational unknowns per SSA value) over the mem2reg'd LLVM IR regenerated from the real generated C source, solved by z3 QF_LRA with tracked assertions (Query 1: typing exists; Query 2: negated expected output degrees unsat); failures diagnosed by unsat core + MaxSAT and counted as violations only with a replayable numeric witness on the compiled DLL",
    note="Doubles are read as reals. Helpers are typed from their own bodies; only libm is a rule table. Arrays share one degree per array. Comparisons against non-zero literal thresholds are not exempted: they make the model untypable, which is then decided numerically or excluded. The dispersity loop and Python driver (covered by C01), magnetic kernels, the VALID expression, and three models with non-table units or no C source are outside the claim. Typed models are additionally validated numerically at sample points. Seven known findings (formula-level)."),
 "C10": dict(
    text="For all 78 builtin models, within the stated bounds (<=3 dispersed parameters per unit, npts in {0,1,5}, 2-3 q points, one extra key): the five calling "
         "interfaces (call_kernel/get_mesh, DirectModel, the Iq/Iqxy keyword helpers, SasviewModel incl. multiplicity models, array distributions and hidden "
         "structure-factor scale/background, and the bumps Experiment wrapper) run on z3 proxies over a recording stub kernel; z3 proves per path that every "
         "interface hands the kernel identical call details, value vector, cutoff and magnetic flag and returns identical theory terms for every symbolic parameter, "
         "width, nsigma and cutoff; that _interpret_data selects exactly mask==0 and qmin<=q<=qmax and not isnan(y), in order, for 1-D and 2-D data; and that no "
         "interface returns normally for a symbolic string key outside the names derived from ModelInfo.",
    design="3/C10",
    technique="bounded symbolic execution of the real Python interfaces on z3 proxy values; recording stub kernel; distribution leaves as uninterpreted functions; a z3 String key inside a dict proxy that forks on every lookup; unsat of the negated obligation per explored path; sat models replayed on the real compiled kernels and interfaces",
    note="Identity of kernel arguments is a sufficient condition for equal intensities; a structural mismatch is reported only if the real intensities differ on replay. Excluded: values outside hard limits, omitted-setting defaults, SESANS, oriented slit data, resolution numerics, rounding. bumps.parameter is a listed stub (bumps is not installed). Trusted: z3, symx, vlib/ifaces.py, vlib/compose.py."),
 "C14": dict(
    text="Claimed for the clauses that are identities over the reals: (a) I = scale<F^2>/<V_shell>+bg uses the accumulators call_Fq reports (C01 harness on the 26 "
         "amplitude models); (b) for the 8 spherically symmetric models the model's own Fq code (IR, special functions uninterpreted) gives F^2 = F1^2 at every q "
         "(to 1e-12 relative for literal round-off); (c) every 'equivalent (outer) volume sphere' mode satisfies 4/3 pi R^3 = V_form with radius_effective and "
         "form_volume interpreted from IR (cbrt axiom); (e) <F>^2 <= <F^2> under dispersity follows from the per-point inequality (Cauchy-Schwarz, meshes <= 3). "
         "Positivity of R_eff and the volumes is attempted as an extended obligation and reported as proved/not proved per mode. (f) extended: for the anisotropic models "
         "the per-particle inequality F1^2 <= F2 is established by a Cauchy-Schwarz certificate over the model's own Gauss quadrature (Fq interpreted from IR, solver lemma "
         "a_k^2 = c_k b_k per addend, sum c_k <= 1): complete for 13 of 18 models, the others are reported undecided. The q->0 limit is outside solver reach.",
    design="3/C14", engine="symx+llsym",
    technique="symbolic execution of the LLVM IR of each model's Fq/form_volume/shell_volume/radius_effective with library special functions uninterpreted; z3 QF_NRA identities (shared subterms generalised, UF abstracted); C01 harness for the accumulator clause"),
 "C11": dict(
    text="Bounded, solver-decided 2-safety: for 10 compiled, 5 python and 1 synthetic python model, 6 product/mixture expressions, SasviewModel, DirectModel and the Iq/Iqxy "
         "helpers, with mono / one dispersed parameter / empty mesh / magnetic on-off in 1-D and 2-D, the result of a request (incl. lazy intermediate results and refusals) "
         "is proved equal for every pair of retained-state contents and every enumerated prefix of earlier operations, and every caller-owned dict, q array, mesh, value "
         "vector and CallDetails is proved equal to its pre-call snapshot. All parameter values, weights, q, cutoff and all retained state (np.empty buffers, cached vectors, "
         "lazy results, template cache entry) are symbolic; no invariant on the state is assumed, so histories of any length are covered within the enumerated structure. "
         "Bit-identity across processes and rounding are not modelled.",
    design="3/C11", engine="symx+llsym",
    technique="2-safety by symbolic execution of the real Python (direct_model, details, kerneldll, kernelpy, product, mixture, sasview_model, generate.load_template) on z3 proxies with compiled kernels served by symbolic execution of their LLVM IR; retained buffers are fresh symbols; O1 renames all non-input symbols of one path and z3 decides that the pair of path conditions implies equal results; O2 is a z3 equality of before/after snapshots through a recording dict; replay on the real DLLs (fresh vs polluted objects bit for bit)",
    note="Structure (models, mesh shapes, prefix operations, q count) is enumerated; leaf interiors, C-side writes into const buffers, Gxi/SESANS, slit resolution, bumps, GPU kernels and module/template reload semantics (C17) are outside. Replays of entry points that allocate their kernel inside the call fix the content of np.empty memory to two chosen patterns."),
 "C03": dict(
    text="Bounded symbolic execution of the real resolution.py / resolution2d.py / DataMixin code on z3 proxies. With q, widths, lengths, user grids, scale and background "
         "symbolic, and with up to 3 data points, 5 q_calc points and 3 extension points per side, z3 shows on every path that weights are non-negative and columns sum to "
         "one, that q_calc is positive, increasing and spans every point's documented window outside the listed findings, that zero width is the identity, apply is linear, "
         "scale and background pass through linearly, and nothing raises. Constructor results rest on the matrix-builder results through explicit assume/guarantee obligations.",
    design="3/C03",
    technique="symbolic execution of the real Python on z3 proxy values (own explorer); special functions uninterpreted with instantiated axioms, then abstracted to polynomial arithmetic and decided by z3/nlsat; counterexamples replayed with floats",
    note="Rounding is outside the claim; grid-extension paths beyond 3 points are cut and counted. User-grid coverage, 2-D positivity and Slit2D are outside. Known findings (each blocked by an exact input constraint): swapped slit roles in Slit1D (repair rejected: test_simple_interface pins the value), low-q floor, single-point zero width, np.trapz, Slit2D keywords. Trusted: z3, symx, vlib/ressym.py."),
 "C04": dict(
    text="Code-level content only: for symbolic grids within the C03 bounds, every weight produced by the real builders is proved identical over the reals to the cell "
         "measure of the documented kernel: truncated and renormalised Gaussian bin masses with sqrt(2) and the (-2.5,+3) sigma window, the sqrt(q'^2-q^2) slit bins with 1/L, "
         "the slit-width bins with 1/2W and reflection at 0, the 61-point average, and the 2-D polar cloud aligned with q with Gaussian ring weights; apply is the weighted "
         "sum/mean. The convergence-rate clause of the property is outside solver reach and is not checked.",
    design="3/C04",
    technique="same engine as C03: identities over the reals with special functions uninterpreted, decided by nlsat; counterexamples replayed with floats",
    note="The limit/bound statement is argued only from the proved identities (paper). The slit-width reference accepts both documented readings of the boundary bins. One known finding (2-D cloud mirrored for qx<0)."),
}

NOT_YET = "check not built yet in this round (planned in DESIGN.md section 3); not claimed"
NA = {
 "C12": "approximate equality of two numerical quadratures of transcendental integrands: no algebraic identity between the code paths; needs validated real analysis (interval/Taylor models), which SMT over reals with uninterpreted special functions cannot decide (DESIGN.md section 3/C12)",
}

def main():
    ids = [json.loads(l)["id"] for l in open(os.path.join(ROOT, "properties.jsonl"))]
    checks = []
    for pid in ids:
        if pid not in CHECKS:
            continue
        c = CHECKS[pid]
        checks.append({
            "property_id": pid,
            "quick_cmd": "./check %s --tier quick" % pid,
            "thorough_cmd": "./check %s --tier thorough" % pid,
            "evidence_file": "evidence/%s.json" % pid,
            "replay_cmd_template": "./check %s --replay {path}" % pid,
            "engine": c.get("engine", "symx"),
            "level_claimed": {"category": "other", "text": c["text"], "design_ref": c["design"]},
            "level_note": c.get("note", COMMON_NOTE),
            "technique": c["technique"],
        })
    na = [{"property_id": pid, "reason": NA.get(pid, NOT_YET)} for pid in ids if pid not in CHECKS]
    man = {
        "version": 1,
        "setup_cmd": "./setup.sh",
        "hooks": {"guard": "SASMODELS_VERIF", "enable": "no source hooks: stubs are attached from the harness by module attributes; checks export SASMODELS_VERIF=1",
                  "baseline_off_cmd": "cd /repo && /venv/bin/python -m pytest -ra -q -p no:cacheprovider --timeout=900 --continue-on-collection-errors",
                  "source_commits": [], "add_only": True},
        "engines": [
            {"name": "symx", "path": "vlib/symx.py", "serves_properties": [c["property_id"] for c in checks if "symx" in c["engine"]],
             "kind_free_text": "symbolic execution of the real Python on z3 proxy values carried by numpy object arrays; DFS explorer; obligations discharged by z3"},
            {"name": "llsym", "path": "vlib/llsym/", "serves_properties": [c["property_id"] for c in checks if "llsym" in c["engine"]],
             "kind_free_text": "real generate.make_source -> convert_type -> clang -O0 LLVM IR -> own IR interpreter over z3 terms (symbolic) or floats (translator validation against the real DLL)"},
        ],
        "checks": checks,
        "not_applicable": na,
        "notes": "Exit codes: 0 held (known findings printed), 1 replayed violation, 2 harness error / inconclusive mandatory obligation.",
    }
    with open(os.path.join(ROOT, "MANIFEST.json"), "w") as f:
        json.dump(man, f, indent=1)
    import jsonschema
    jsonschema.validate(man, json.load(open("/root/.vp/MANIFEST.schema.json")))
    for c in checks:
        p = os.path.join(ROOT, c["evidence_file"])
        if os.path.exists(p):
            jsonschema.validate(json.load(open(p)), json.load(open("/root/.vp/EVIDENCE.schema.json")))
    print("MANIFEST ok: %d checks, %d not applicable" % (len(checks), len(na)))

main()
