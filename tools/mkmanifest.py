#!/venv/bin/python
"""Regenerates MANIFEST.json from the table below and validates it."""
import json, os, sys
ROOT = os.path.dirname(os.path.dirname(os.path.abspath(__file__)))
sys.path.insert(0, os.path.join(ROOT, ".deps"))

COMMON_NOTE = ("Trusted: z3 (cvc5 cross-check where stated), the vlib proxy layer/explorer and IR interpreter "
               "(validated against real-code float runs on every run), doubles modelled as reals, libm/special "
               "functions as uninterpreted functions with instantiated axioms. Bounded: see evidence.coverage.bounds; "
               "nothing is claimed outside the bounds. Counterexamples are replayed on the real code before being reported.")

CHECKS = {
 "C02": dict(
    text="Bounded symbolic execution of the real weights.get_weights/_weights code on z3 proxies: for every "
         "distribution type, point count within the bound and relative/absolute mode, with centre, width, nsigmas "
         "and both limits symbolic, z3 shows on every path that values are increasing, inside limits and support, "
         "exactly the reference grid points inside the limits, weights >= 0, sum to 1 and are proportional to the "
         "documented density. Right level: the property is a forall over five reals, which the solver covers entirely "
         "inside the npts bound; rounding is outside.",
    design="3/C02", technique="symbolic execution of real Python on z3 proxy values (own explorer) + z3 QF_UFNRA obligations"),
}

NOT_YET = "check not built yet in this round (planned in DESIGN.md section 3); not claimed"
NA = {
 "C12": "approximate equality of two numerical quadratures of transcendental integrands: no algebraic identity between the code paths; needs validated real analysis (interval/Taylor models), which SMT over reals with uninterpreted special functions cannot decide (DESIGN.md section 3/C12)",
}

def main():
    ids = [json.loads(l)["id"] for l in open(os.path.join(ROOT, "properties.jsonl"))]
    checks = []
    for pid in ids:
        if pid not in CHECKS:
            continue
        c = CHECKS[pid]
        checks.append({
            "property_id": pid,
            "quick_cmd": "./check %s --tier quick" % pid,
            "thorough_cmd": "./check %s --tier thorough" % pid,
            "evidence_file": "evidence/%s.json" % pid,
            "replay_cmd_template": "./check %s --replay {path}" % pid,
            "engine": c.get("engine", "symx"),
            "level_claimed": {"category": "other", "text": c["text"], "design_ref": c["design"]},
            "level_note": c.get("note", COMMON_NOTE),
            "technique": c["technique"],
        })
    na = [{"property_id": pid, "reason": NA.get(pid, NOT_YET)} for pid in ids if pid not in CHECKS]
    man = {
        "version": 1,
        "setup_cmd": "./setup.sh",
        "hooks": {"guard": "SASMODELS_VERIF", "enable": "no source hooks: stubs are attached from the harness by module attributes; checks export SASMODELS_VERIF=1",
                  "baseline_off_cmd": "cd /repo && /venv/bin/python -m pytest -ra -q -p no:cacheprovider --timeout=900 --continue-on-collection-errors",
                  "source_commits": [], "add_only": True},
        "engines": [
            {"name": "symx", "path": "vlib/symx.py", "serves_properties": [c["property_id"] for c in checks if c["engine"] == "symx"],
             "kind_free_text": "symbolic execution of the real Python on z3 proxy values carried by numpy object arrays; DFS explorer; obligations discharged by z3"},
        ],
        "checks": checks,
        "not_applicable": na,
        "notes": "Exit codes: 0 held (known findings printed), 1 replayed violation, 2 harness error / inconclusive mandatory obligation.",
    }
    with open(os.path.join(ROOT, "MANIFEST.json"), "w") as f:
        json.dump(man, f, indent=1)
    import jsonschema
    jsonschema.validate(man, json.load(open("/root/.vp/MANIFEST.schema.json")))
    for c in checks:
        p = os.path.join(ROOT, c["evidence_file"])
        if os.path.exists(p):
            jsonschema.validate(json.load(open(p)), json.load(open("/root/.vp/EVIDENCE.schema.json")))
    print("MANIFEST ok: %d checks, %d not applicable" % (len(checks), len(na)))

main()
