#!/bin/sh
# Offline bootstrap: solver + symbolic-execution packages for the repository's
# interpreter (/venv, python 3.12) from the local wheelhouse.  Idempotent.
set -e
HERE="$(cd "$(dirname "$0")" && pwd)"
DEPS="$HERE/.deps"
if [ ! -f "$DEPS/.ok" ]; then
  rm -rf "$DEPS"; mkdir -p "$DEPS"
  PIP_NO_INDEX=1 /venv/bin/python -m pip install --quiet --no-index \
      --find-links /opt/veriftools/wheels --target "$DEPS" \
      z3-solver cvc5 crosshair-tool jsonschema >/dev/null
  touch "$DEPS/.ok"
fi
echo "setup ok: $DEPS"
